/-
  Property C15 — the unbalanced (compiled) estimator matches the balanced one and skips
  missing channels.  Property theorems only; helper lemmas live in Rsa/Lemmas/C15*.lean.

  `K` is any linearly ordered field.  `Cfg K` is the input of the kernel's `calc` after the
  Python layer has coded conditions and folds; `calcLoop` is the pair loop as coded (with the
  generated leaves), `specNum/specDen/specSim/specDist` the statement of the property.
-/
import Mathlib.Data.List.Basic
import Rsa.Lemmas.C15Idx
import Rsa.Lemmas.C15Loop
import Rsa.Lemmas.C15Bal
import Rsa.Lemmas.C15Miss
import Rsa.Lemmas.C15More
import Rsa.Lemmas.C15Single
import Rsa.Lemmas.C15One
import Rsa.Lemmas.C15Cv
import Rsa.Lemmas.C15PoisCv
import Rsa.Lemmas.C15Lay
import Mathlib.Analysis.Real.Sqrt

set_option linter.unusedSectionVars false
set_option linter.unusedVariables false

namespace Rsa.Props.C15

open Rsa Rsa.Unb Rsa.Gen.C15

variable {K : Type} [Field K] [LinearOrder K] [IsStrictOrderedRing K]

/-! ### index arithmetic into the buffer (generated leaves `idxGt`, `idxLe`, `nRdm`) -/

/-- both index formulas of the kernel are `n +` the position of the pair in the condensed
    (`triu`) layout -/
theorem idx_is_tri (n a b : Nat) (hab : a < b) (hb : b < n) :
    idxGt n a b = n + triIdx n a b ∧ idxLe n b a = n + triIdx n a b := by
  have h := idxGt_eq n a b hab hb
  rw [triIdx_eq n a b hab hb]
  exact ⟨by omega, by rw [idxLe_eq_idxGt]; omega⟩

/-- two pairs of condition codes address the same buffer entry iff they are the same
    unordered pair: no two condition pairs (and no pair and self term) share an entry -/
theorem idx_injective (n a b x y : Nat) (hab : a ≤ b) (hb : b < n) (hx : x < n) (hy : y < n) :
    pairKey n x y = pairKey n a b ↔ (x = a ∧ y = b) ∨ (x = b ∧ y = a) :=
  pairKey_eq_iff n a b x y hab hb hx hy

/-- every index stays inside the buffer of `n + n_rdm` entries (no write past the end) -/
theorem idx_lt_buffer (n a b : Nat) (hab : a ≤ b) (hb : b < n) :
    pairKey n a b < nRdm n + n :=
  pairKey_lt_buffer n a b hab hb

example : pairKey 4 1 3 = 4 + 4 ∧ pairKey 4 3 1 = 8 ∧ nRdm 4 + 4 = 10 := by decide

/-- position `p` of the `triu` enumeration holds the pair whose buffer index is `n + p`:
    the Python layer's `self[row p] + self[col p] - 2·rdm[p]` combines matching entries -/
theorem idx_position (n p : Nat) (hp : p < (pairs n).length) :
    pairKey n ((pairs n)[p]).1 ((pairs n)[p]).2 = n + p ∧
    ((pairs n)[p]).1 < ((pairs n)[p]).2 ∧ ((pairs n)[p]).2 < n :=
  pairs_position n p hp

/-! ### the pair loop returns the average over admissible observation pairs -/

/-- For every pair of condition codes `a ≤ b` the buffer entry the loop produces is the
    pair average of the specification: summed values over summed weights of the admissible
    observation pairs (self pairs half, only when not cross-validating; equal fold codes
    excluded when cross-validating), NaN when no pair has a valid product.
    `half = 1/2` is what the property demands of `weights[idx] += 1 / 2`. -/
theorem loop_eq_pair_average (c : Cfg K) (hhalf : c.half = 1 / two)
    (hdesc : ∀ i, i < c.nObs → c.desc i < c.n) (a b : Nat) (hab : a ≤ b) (hb : b < c.n) :
    (calcLoop c (pairKey c.n a b)).1 = specNum c a b ∧
    (calcLoop c (pairKey c.n a b)).2 = specDen c a b ∧
    finalize (calcLoop c) (pairKey c.n a b) = specSim c a b := by
  obtain ⟨h1, h2⟩ := calcLoop_spec c hhalf hdesc a b hab hb
  refine ⟨h1, h2, ?_⟩
  unfold finalize specSim finalDiv
  simp only [h1, h2]

/-- … and the assembled dissimilarity is `self_a + self_b − 2·cross_ab` of those averages,
    position by position of the condensed vector -/
theorem unb_eq_spec (c : Cfg K) (hhalf : c.half = 1 / two)
    (hdesc : ∀ i, i < c.nObs → c.desc i < c.n) :
    (∀ a b, a < b → b < c.n → distOf c.n (finalize (calcLoop c)) a b = specDist c a b) ∧
    unbRdm c = (pairs c.n).map (fun ab => specDist c ab.1 ab.2) := by
  have hd : ∀ a b, a < b → b < c.n → distOf c.n (finalize (calcLoop c)) a b = specDist c a b := by
    intro a b hab hb
    have haa := (loop_eq_pair_average c hhalf hdesc a a (Nat.le_refl _) (by omega)).2.2
    have hbb := (loop_eq_pair_average c hhalf hdesc b b (Nat.le_refl _) hb).2.2
    have hab' := (loop_eq_pair_average c hhalf hdesc a b (by omega) hb).2.2
    rw [pairKey_self] at haa hbb
    unfold distOf specDist
    rw [haa, hbb, hab']
    cases specSim c a a <;> cases specSim c b b <;> cases specSim c a b <;> rfl
  refine ⟨hd, ?_⟩
  exact assemble_eq c.n (finalize (calcLoop c)) (fun a b => specDist c a b) hd

/-- the Python layer's combination (generated leaf `combine`, from the text
    `self_sim[row_idx] + self_sim[col_idx] - 2 * rdm`) is `self_a + self_b − 2·cross_ab`, and
    the Poisson preprocessing constants (leaves `priorLambdaL`, `priorWeightL`) give
    `d = (x + λ·w) / (1 + w)` -/
theorem leaf_combine_and_prior (sa sb cab lam pw x : K) :
    combine sa sb cab = sa + sb - two * cab ∧
    (x + priorLambdaL lam pw) / priorWeightL pw = (x + lam * pw) / (1 + pw) := by
  constructor
  · rfl
  · unfold priorLambdaL priorWeightL; simp

/-! ### equality with the balanced estimators -/

/-- Euclidean, **any repetition counts**, weighting by number, no missing channel: the
    unbalanced result is the squared Euclidean distance of the condition means per channel
    (`calc_rdm_euclidean`, Gram form and textbook form). -/
theorem unb_euclid_eq_balanced (c : Cfg K) (P : Nat) (V : Nat → Nat → K)
    (hkern : ∀ i j, c.kern i j = euclidK P (fun ch => some (V i ch)) (fun ch => some (V j ch)))
    (hP : 0 < P) (hcv : c.crossval = false) (hnum : c.number = true) (hhalf : c.half = 1 / two)
    (hdesc : ∀ i, i < c.nObs → c.desc i < c.n)
    (a b : Nat) (hab : a < b) (hb : b < c.n)
    (ha : 0 < nOf c.nObs c.desc a) (hb' : 0 < nOf c.nObs c.desc b) :
    distOf c.n (finalize (calcLoop c)) a b
      = some (balMahal P idN (condMean c.nObs c.desc V) a b) ∧
    balMahal P idN (condMean c.nObs c.desc V) a b = sqDist P (condMean c.nObs c.desc V) a b := by
  have hB : BilCfg c P idN V := {
    kern := by
      intro i j; rw [hkern]; exact (euclidK_compl P (V i) (V j)).trans (by rw [bil_idN])
    symm := by intro k l; unfold idN; by_cases h : k = l <;> simp [h, eq_comm]
    posP := hP }
  refine ⟨?_, balMahal_idN_eq_sqDist P _ a b⟩
  rw [(unb_eq_spec c hhalf hdesc).1 a b hab hb]
  exact specDist_plain hB hcv hnum a b ha hb'

/-- Mahalanobis with a symmetric precision `N`, any repetition counts: the unbalanced
    result is `(m_a − m_b)ᵀ N (m_a − m_b) / P` in the Gram form of `calc_rdm_mahalanobis`. -/
theorem unb_mahalanobis_eq_balanced (c : Cfg K) (P : Nat) (N : Nat → Nat → K)
    (V : Nat → Nat → K)
    (hkern : ∀ i j, c.kern i j =
      mahalK false P N (fun ch => some (V i ch)) (fun ch => some (V j ch)))
    (hN : ∀ k l, N k l = N l k)
    (hP : 0 < P) (hcv : c.crossval = false) (hnum : c.number = true) (hhalf : c.half = 1 / two)
    (hdesc : ∀ i, i < c.nObs → c.desc i < c.n)
    (a b : Nat) (hab : a < b) (hb : b < c.n)
    (ha : 0 < nOf c.nObs c.desc a) (hb' : 0 < nOf c.nObs c.desc b) :
    distOf c.n (finalize (calcLoop c)) a b
      = some (balMahal P N (condMean c.nObs c.desc V) a b) := by
  have hB : BilCfg c P N V := {
    kern := by intro i j; rw [hkern]; exact mahalK_compl P N (V i) (V j)
    symm := hN
    posP := hP }
  rw [(unb_eq_spec c hhalf hdesc).1 a b hab hb]
  exact specDist_plain hB hcv hnum a b ha hb'

/-- non-vacuity: 3 observations (conditions 0, 1, 0 — unbalanced counts), 2 channels -/
def exV : Nat → Nat → ℚ := fun i ch => (i + 2 * ch + i * ch : Nat)
def exCfg : Cfg ℚ := {
  nObs := 3, n := 2, desc := fun i => i % 2, cv := fun i => i, crossval := false, number := true,
  kern := fun i j => euclidK 2 (fun ch => some (exV i ch)) (fun ch => some (exV j ch)),
  half := 1 / two }

example : (∀ i, i < exCfg.nObs → exCfg.desc i < exCfg.n) ∧ 0 < nOf exCfg.nObs exCfg.desc 0 ∧
    0 < nOf exCfg.nObs exCfg.desc 1 ∧ nOf exCfg.nObs exCfg.desc 0 ≠ nOf exCfg.nObs exCfg.desc 1 := by
  refine ⟨?_, by decide, by decide, by decide⟩
  intro i hi
  show i % 2 < 2
  omega

/-- **One observation per condition**, no cross-validation, any of the kernels (symmetric
    in its two arguments), **either weighting**: the dissimilarity of the conditions of
    observations `i0`, `j0` is `s_ii/w_ii + s_jj/w_jj − 2 s_ij/w_ij` of the per-pair kernel —
    evaluated for the four methods in `unb_euclid_eq_balanced` (Euclidean / Mahalanobis),
    `single_obs_correlation`, `single_obs_poisson`. -/
theorem unb_single_obs_eq_balanced (c : Cfg K) (hk : ∀ i j, c.kern i j = c.kern j i)
    (hcv : c.crossval = false) (hhalf : c.half = 1 / two)
    (hdesc : ∀ i, i < c.nObs → c.desc i < c.n)
    (hinj : ∀ i j, i < c.nObs → j < c.nObs → c.desc i = c.desc j → i = j)
    (i0 j0 : Nat) (hi0 : i0 < c.nObs) (hj0 : j0 < c.nObs) (hlt : c.desc i0 < c.desc j0)
    (hwi : 0 < (c.kern i0 i0).2) (hwj : 0 < (c.kern j0 j0).2) (hwij : 0 < (c.kern i0 j0).2) :
    distOf c.n (finalize (calcLoop c)) (c.desc i0) (c.desc j0)
      = some ((c.kern i0 i0).1 / (c.kern i0 i0).2 + (c.kern j0 j0).1 / (c.kern j0 j0).2
          - two * ((c.kern i0 j0).1 / (c.kern i0 j0).2)) := by
  rw [(unb_eq_spec c hhalf hdesc).1 _ _ hlt (hdesc j0 hj0)]
  unfold specDist
  rw [specSim_single c hk hcv i0 i0 hi0 hi0 hinj hwi, specSim_single c hk hcv j0 j0 hj0 hj0 hinj hwj,
    specSim_single c hk hcv i0 j0 hi0 hj0 hinj hwij]

/-- … for the correlation kernel on complete, non-constant patterns this is `1 − r`
    (Pearson, centred form of `calc_rdm_correlation`); `sqrt` is any function with
    `sqrt v · sqrt v = v` for `v > 0` -/
theorem single_obs_correlation [HasSqrt K]
    (hsqrt : ∀ v : K, 0 < v → HasSqrt.sqrt v * HasSqrt.sqrt v = v)
    (P : Nat) (hP : 0 < P) (x y : Nat → K)
    (hvx : 0 < sumTo P (fun c => x c * x c) - sumTo P x * sumTo P x / (P : K))
    (hvy : 0 < sumTo P (fun c => y c * y c) - sumTo P y * sumTo P y / (P : K)) :
    (corrK false P (fun c => some (x c)) (fun c => some (x c))).1 /
      (corrK false P (fun c => some (x c)) (fun c => some (x c))).2 +
    (corrK false P (fun c => some (y c)) (fun c => some (y c))).1 /
      (corrK false P (fun c => some (y c)) (fun c => some (y c))).2 -
    two * ((corrK false P (fun c => some (x c)) (fun c => some (y c))).1 /
      (corrK false P (fun c => some (x c)) (fun c => some (y c))).2)
    = balCorr P x y :=
  single_corr_aux hsqrt P hP x y hvx hvy

/-- the `sqrt` contract is met by the real square root -/
noncomputable instance : HasSqrt ℝ := ⟨Real.sqrt⟩
example : ∀ v : ℝ, 0 < v → HasSqrt.sqrt v * HasSqrt.sqrt v = v :=
  fun v hv => Real.mul_self_sqrt (le_of_lt hv)

/-- … and for the Poisson kernel on preprocessed patterns `(d, l = log d)` it is the
    symmetrised KL formula of `calc_rdm_poisson` (any `l`, so any logarithm) -/
theorem single_obs_poisson (P : Nat) (hP : 0 < P) (dx lx dy ly : Nat → K) :
    (poissonK P (fun c => some (dx c, lx c)) (fun c => some (dx c, lx c))).1 /
      (poissonK P (fun c => some (dx c, lx c)) (fun c => some (dx c, lx c))).2 +
    (poissonK P (fun c => some (dy c, ly c)) (fun c => some (dy c, ly c))).1 /
      (poissonK P (fun c => some (dy c, ly c)) (fun c => some (dy c, ly c))).2 -
    two * ((poissonK P (fun c => some (dx c, lx c)) (fun c => some (dy c, ly c))).1 /
      (poissonK P (fun c => some (dx c, lx c)) (fun c => some (dy c, ly c))).2)
    = balPoisson P dx lx dy ly :=
  single_poisson_aux P hP dx lx dy ly

/-! ### cross-validation: pairs sharing a fold value are excluded -/

/-- For a kernel symmetric in its two observations every buffer entry — cross term *and*
    self term — is the average over the full rectangle of ordered observation pairs
    `(i in a, j in b)` that are admissible (different fold codes when cross-validating; an
    observation with itself only when not): no within-fold product enters a
    cross-validated entry. -/
theorem entry_eq_rectangle_average (c : Cfg K) (hk : ∀ i j, c.kern i j = c.kern j i)
    (hhalf : c.half = 1 / two) (hdesc : ∀ i, i < c.nObs → c.desc i < c.n)
    (a b : Nat) (hab : a ≤ b) (hb : b < c.n) :
    finalize (calcLoop c) (pairKey c.n a b)
      = if 0 < rectDen c a b then some (rectNum c a b / rectDen c a b) else none := by
  rw [(loop_eq_pair_average c hhalf hdesc a b hab hb).2.2]
  exact specSim_eq_rect c hk a b

/-- **Crossnobis on a design balanced over folds** (every condition has the same number of
    observations in each of the `F ≥ 2` folds; counts may differ between conditions),
    symmetric precision `N`, weighting by number, complete data: the unbalanced estimator is
    the leave-one-fold-out estimator of `calc_rdm_crossnobis` in the form proved for C02 — the
    mean over ordered pairs of different folds of `(μ_a^f − μ_b^f)ᵀ N (μ_a^g − μ_b^g) / P`. -/
theorem unb_cv_eq_balanced (c : Cfg K) (P : Nat) (N : Nat → Nat → K) (V : Nat → Nat → K)
    (hkern : ∀ i j, c.kern i j =
      mahalK false P N (fun ch => some (V i ch)) (fun ch => some (V j ch)))
    (hN : ∀ k l, N k l = N l k) (hP : 0 < P)
    (hcv : c.crossval = true) (hnum : c.number = true) (hhalf : c.half = 1 / two)
    (hdesc : ∀ i, i < c.nObs → c.desc i < c.n)
    (F : Nat) (hF2 : 2 ≤ F) (hF : ∀ i, i < c.nObs → c.cv i < F)
    (a b : Nat) (hab : a < b) (hb : b < c.n) (ra rb : Nat) (hra : 0 < ra) (hrb : 0 < rb)
    (hba : ∀ f, f < F → nInFold c.nObs c.desc c.cv a f = ra)
    (hbb : ∀ f, f < F → nInFold c.nObs c.desc c.cv b f = rb) :
    distOf c.n (finalize (calcLoop c)) a b
      = some (cvSpec F P N (foldMean c.nObs c.desc c.cv V) a b) := by
  have hB : BilCfg c P N V := {
    kern := by intro i j; rw [hkern]; exact mahalK_compl P N (V i) (V j)
    symm := hN
    posP := hP }
  rw [(unb_eq_spec c hhalf hdesc).1 a b hab hb]
  exact specDist_cv hB hcv hnum F hF2 hF a b (ra : K) (rb : K)
    (by exact_mod_cast hra) (by exact_mod_cast hrb)
    (fun f hf => by rw [nAF_eq_nInFold, hba f hf])
    (fun f hf => by rw [nAF_eq_nInFold, hbb f hf])

/-- non-vacuity: 2 conditions × 2 folds, condition 0 twice per fold, condition 1 once -/
example : let desc : Nat → Nat := fun i => if i < 4 then 0 else 1
    let cv : Nat → Nat := fun i => i % 2
    (∀ f, f < 2 → nInFold 6 desc cv 0 f = 2) ∧ (∀ f, f < 2 → nInFold 6 desc cv 1 f = 1) := by
  decide

/-- `poisson_cv`: full statement — one observation per condition and fold, `F ≥ 2` folds: the
    unbalanced estimator equals the cross-validated symmetrised KL of `calc_rdm_poisson_cv`
    (mean over ordered pairs of different folds of `Σ (d_a^f − d_b^f)(l_a^g − l_b^g) / P`, the
    form proved for C02 in `Rsa.Props.C02.poissoncv_eq_pair_average`).  With more than one
    observation per cell theory does not demand equality (log of a mean ≠ mean of logs).
    Proved below as `unb_poisson_cv_eq_balanced`. -/
def unb_poisson_cv_eq_balanced_full : Prop :=
  ∀ (c : Cfg K) (P F : Nat) (D L : Nat → Nat → K),
    (∀ i j, c.kern i j =
      poissonK P (fun ch => some (D i ch, L i ch)) (fun ch => some (D j ch, L j ch))) →
    0 < P → c.crossval = true → c.number = true → c.half = 1 / two →
    (∀ i, i < c.nObs → c.desc i < c.n) → 2 ≤ F → (∀ i, i < c.nObs → c.cv i < F) →
    ∀ a b, a < b → b < c.n →
    (∀ f, f < F → nInFold c.nObs c.desc c.cv a f = 1) →
    (∀ f, f < F → nInFold c.nObs c.desc c.cv b f = 1) →
    distOf c.n (finalize (calcLoop c)) a b
      = some (cvPoissonSpec F P (foldMean c.nObs c.desc c.cv D) (foldMean c.nObs c.desc c.cv L) a b)

/-- **poisson_cv on a design with one observation per condition and fold** equals the
    balanced estimator: the full statement above holds (any "log" vectors `L`, so any
    logarithm; the regrouping by folds is done for the non-bilinear kernel
    `½(⟨d_j,l_i⟩ + ⟨d_i,l_j⟩ − ⟨d_i,l_i⟩ − ⟨d_j,l_j⟩)`). -/
theorem unb_poisson_cv_eq_balanced : unb_poisson_cv_eq_balanced_full (K := K) := by
  intro c P F D L hkern hP hcv hnum hhalf hdesc hF2 hF a b hab hb hua hub
  have hB : PoisCfg c P D L := { kern := hkern, posP := hP }
  rw [(unb_eq_spec c hhalf hdesc).1 a b hab hb]
  exact specDist_pois_cv hB hcv hnum F hF2 hF a b
    (fun f hf => by rw [nAF_eq_nInFold, hua f hf]; simp)
    (fun f hf => by rw [nAF_eq_nInFold, hub f hf]; simp)

/-- non-vacuity: 2 conditions × 3 folds, one observation per cell -/
example : let desc : Nat → Nat := fun i => i % 2
    let cv : Nat → Nat := fun i => i / 2
    (∀ f, f < 3 → nInFold 6 desc cv 0 f = 1) ∧ (∀ f, f < 3 → nInFold 6 desc cv 1 f = 1) := by
  decide

/-- (kept from round 1, now a corollary-level fact) with the symmetric Poisson kernel every
    cross-validated entry is the average over ordered pairs from different folds -/
theorem unb_poisson_cv_partial (c : Cfg K) (P : Nat) (D L : Nat → Nat → K)
    (hkern : ∀ i j, c.kern i j =
      poissonK P (fun ch => some (D i ch, L i ch)) (fun ch => some (D j ch, L j ch)))
    (hhalf : c.half = 1 / two) (hdesc : ∀ i, i < c.nObs → c.desc i < c.n)
    (a b : Nat) (hab : a ≤ b) (hb : b < c.n) :
    finalize (calcLoop c) (pairKey c.n a b)
      = if 0 < rectDen c a b then some (rectNum c a b / rectDen c a b) else none := by
  apply entry_eq_rectangle_average c _ hhalf hdesc a b hab hb
  intro i j
  rw [hkern, hkern, poissonK_compl, poissonK_compl]
  congr 1
  congr 1
  apply sumTo_congr; intro ch _; ring

/-- The single-pair helper `calc_one` on the observations of two conditions (enumerated by
    `ia`, `ib`; it always excludes equal fold codes) returns the entry of the full
    cross-validated computation — for `a = b` the self entry. -/
theorem calc_one_eq_entry (c : Cfg K) (hk : ∀ i j, c.kern i j = c.kern j i)
    (hcv : c.crossval = true) (hhalf : c.half = 1 / two)
    (hdesc : ∀ i, i < c.nObs → c.desc i < c.n)
    (a b : Nat) (hab : a ≤ b) (hb : b < c.n) (na nb : Nat) (ia ib : Nat → Nat)
    (hinja : ∀ i j, i < na → j < na → ia i = ia j → i = j)
    (himga : ∀ i', (i' < c.nObs ∧ c.desc i' = a) ↔ ∃ i, i < na ∧ ia i = i')
    (hinjb : ∀ i j, i < nb → j < nb → ib i = ib j → i = j)
    (himgb : ∀ i', (i' < c.nObs ∧ c.desc i' = b) ↔ ∃ i, i < nb ∧ ib i = i') :
    (calcOne na nb (fun i => c.cv (ia i)) (fun j => c.cv (ib j)) c.number
      (fun i j => c.kern (ia i) (ib j))).1 = finalize (calcLoop c) (pairKey c.n a b) := by
  rw [(loop_eq_pair_average c hhalf hdesc a b hab hb).2.2]
  exact calcOne_eq_specSim c hk hcv a b na nb ia ib hinja himga hinjb himgb

/-! ### missing channels -/

/-- A channel missing (NaN) in one vector is left out of exactly the products of pairs
    involving that vector: for every kernel the pair is evaluated as if the channel were
    missing in both, i.e. over the remaining channels only (Euclidean: explicit sums). -/
theorem missing_channel_skipped (P c0 : Nat) (x y : Nat → Option K) :
    euclidK P (dropCh c0 x) y =
      (sumTo P (fun c => if c = c0 then 0 else prodAt x y c),
       sumTo P (fun c => if c = c0 then 0 else oneAt x y c)) ∧
    euclidK P (dropCh c0 x) y = euclidK P (dropCh c0 x) (dropCh c0 y) ∧
    (∀ (N : Nat → Nat → K) (coded : Bool),
      mahalK coded P N (dropCh c0 x) y = mahalK coded P N (dropCh c0 x) (dropCh c0 y)) ∧
    (∀ (xp yp : Nat → Option (K × K)),
      poissonK P (dropCh c0 xp) yp = poissonK P (dropCh c0 xp) (dropCh c0 yp)) ∧
    (∀ [HasSqrt K] (coded : Bool),
      corrK coded P (dropCh c0 x) y = corrK coded P (dropCh c0 x) (dropCh c0 y)) := by
  refine ⟨?_, ?_, ?_, ?_, ?_⟩
  · unfold euclidK
    rw [prodAt_drop_fn, oneAt_drop_fn]
  · unfold euclidK
    rw [prodAt_drop_both_fn, oneAt_drop_both_fn]
  · intro N coded
    unfold mahalK
    simp only [fstAt_drop_both, sndAt_drop_both, oneAt_drop_both_fn]
  · intro xp yp
    unfold poissonK
    rw [poissonAt_drop_both_fn, oneAt_drop_both_fn]
  · intro _ coded
    unfold corrK
    simp only [fstAt_drop_both, sndAt_drop_both, fstAt_drop_both_fn, sndAt_drop_both_fn,
      prodAt_drop_both_fn, oneAt_drop_both_fn, cntValid_drop_both]

/-- A channel missing everywhere has no effect: on `P + 1` channels with channel `c0`
    missing in both vectors every kernel the property describes returns what it returns on
    the `P` remaining channels (for Mahalanobis with row and column `c0` of the precision
    deleted).  The kernels *as coded* for correlation / mahalanobis (`coded = true`) do not
    have this property — see `corr_kernel_ok_partial`, `mahal_kernel_ok_partial`. -/
theorem missing_everywhere_no_effect (P c0 : Nat) (h : c0 ≤ P) (x y : Nat → Option K) :
    euclidK (P + 1) (dropCh c0 x) (dropCh c0 y) = euclidK P (delCh c0 x) (delCh c0 y) ∧
    (∀ (N : Nat → Nat → K),
      mahalK false (P + 1) N (dropCh c0 x) (dropCh c0 y)
        = mahalK false P (delRC c0 N) (delCh c0 x) (delCh c0 y)) ∧
    (∀ (xp yp : Nat → Option (K × K)),
      poissonK (P + 1) (dropCh c0 xp) (dropCh c0 yp) = poissonK P (delCh c0 xp) (delCh c0 yp)) ∧
    (∀ [HasSqrt K],
      corrK false (P + 1) (dropCh c0 x) (dropCh c0 y) = corrK false P (delCh c0 x) (delCh c0 y)) :=
  ⟨euclidK_skip P c0 h x y, fun N => mahalK_skip P c0 h N x y,
   fun xp yp => poissonK_skip P c0 h xp yp, corrK_skip P c0 h x y⟩

/-- A pair of conditions without any valid product is NaN (and so is its dissimilarity). -/
theorem no_valid_product_nan (c : Cfg K) (a b : Nat)
    (h : ∀ i j, i < c.nObs → j < c.nObs →
      ((c.desc i = a ∧ c.desc j = b) ∨ (c.desc i = b ∧ c.desc j = a)) → ¬ 0 < (c.kern i j).2) :
    specSim c a b = none ∧ specDist c a b = none := by
  have hden : specDen c a b = 0 := specDen_zero c a b h
  have h1 : specSim c a b = none := by
    unfold specSim; rw [hden]; simp
  refine ⟨h1, ?_⟩
  unfold specDist; rw [h1]
  cases specSim c a a <;> cases specSim c b b <;> rfl

/-- … and a weight is zero exactly when no channel is measured in both observations -/
theorem no_shared_channel_weight_zero (P : Nat) (x y : Nat → Option K)
    (h : ∀ ch, ch < P → x ch = none ∨ y ch = none) : (euclidK P x y).2 = 0 := by
  unfold euclidK
  show sumTo P (oneAt x y) = 0
  rw [← sumTo_zero (K := K) P]
  apply sumTo_congr; intro ch hch
  rcases h ch hch with e | e
  · simp [oneAt, e]
  · cases hx : x ch <;> simp [oneAt, e, hx]

/-! ### the two weightings; the kernels as coded -/

/-- Without missing channels (constant positive weight) both weightings give the same
    pair averages. -/
theorem equal_eq_number_no_missing (c : Cfg K) (w0 : K) (hw0 : 0 < w0)
    (hw : ∀ i j, (c.kern i j).2 = w0) (a b : Nat) :
    specSim { c with number := false } a b = specSim { c with number := true } a b :=
  specSim_equal_eq_number c w0 hw0 hw a b

/-- The kernel *text*: `weights[idx] += 1 / 2` adds the C integer quotient … -/
theorem coded_half_is_zero : (ofInt selfWEqual : K) = 0 := by
  simp [selfWEqual, ofInt]

/-- … so the loop with the coded increment agrees with the loop the property demands only
    when cross-validating (no self term is accumulated).  Full statement, false on this
    tree: `equal_weighting_full`. -/
def equal_weighting_full : Prop :=
  ∀ (c : Cfg K), calcLoop { c with half := ofInt selfWEqual } = calcLoop { c with half := 1 / two }

theorem equal_weighting_ok_partial (c : Cfg K) (hcv : c.crossval = true) (h1 h2 : K) :
    calcLoop { c with half := h1 } = calcLoop { c with half := h2 } := by
  unfold calcLoop
  have hs : ∀ (h : K) i b, selfStep { c with half := h } i b = b := by
    intro h i b; unfold selfStep; simp [hcv]
  have hp : ∀ (h : K) i, pairStep { c with half := h } i = pairStep c i := by
    intro h i; rfl
  simp only [hs, hp]

/-- The correlation kernel as coded (moments normalised by `n_dim`) is the kernel of the
    property only when no channel is missing in the pair. -/
theorem corr_kernel_ok_partial [HasSqrt K] (P : Nat) (x y : Nat → Option K)
    (h : cntValid P x y = P) : corrK true P x y = corrK false P x y := by
  unfold corrK; simp [h]

/-- The mahalanobis kernel as coded (weight `n_dim`) is the kernel of the property only on
    complete vectors. -/
theorem mahal_kernel_ok_partial (P : Nat) (N : Nat → Nat → K) (x y : Nat → K) :
    mahalK true P N (fun ch => some (x ch)) (fun ch => some (y ch))
      = mahalK false P N (fun ch => some (x ch)) (fun ch => some (y ch)) := by
  have := mahalK_compl P N x y
  unfold Rsa.Unb.compl at this
  rw [this]
  unfold mahalK bil oneAt fstAt sndAt
  simp

/-! ### labels -/

/-- Conditions are labelled in order of first appearance: no duplicates, the same labels,
    a later observation appends its label iff it is new, and every observation's code
    indexes its own label. -/
theorem labels_first_appearance (l : List Nat) :
    (firstAppearance l).Nodup ∧ (∀ x, x ∈ firstAppearance l ↔ x ∈ l) ∧
    (∀ x, firstAppearance (l ++ [x]) =
      if x ∈ l then firstAppearance l else firstAppearance l ++ [x]) ∧
    (∀ i (hi : i < l.length), (firstAppearance l)[(codes l)[i]'(by simpa [codes] using hi)]? = some l[i]) := by
  refine ⟨firstAppearance_nodup l, fun x => mem_firstAppearance l x,
    fun x => firstAppearance_append l x, ?_⟩
  intro i hi
  simp only [codes, List.getElem_map]
  exact List.getElem?_idxOf ((mem_firstAppearance l _).mpr (List.getElem_mem hi))

example : firstAppearance [2, 0, 1, 2, 0, 1] = [2, 0, 1] ∧ codes [2, 0, 1, 2, 0, 1] = [0, 1, 2, 0, 1, 2] := by
  decide

/-! ### round 3: dtype and memory layout of the measurement array -/

/-- **Integer and float inputs, C- or Fortran-ordered (or strided) arrays give the same result.**
    The user's array is raw memory: a flat buffer read through an offset and two strides
    (`View`), of any element type with an entry-wise conversion to double (`cast`: the identity
    for a float array, `castInt` for an integer array).  `ensureDouble` is `a.astype(np.float64)`
    (fresh row- or column-major copy, keeping the axis order of the source), `kernelInput` what the
    kernel's memoryview `data[i, ch]` reads from it.  Whatever offset, strides and element type:
    (1) the kernel reads exactly the converted logical entries; (2) two arrays holding the same
    logical matrix give the same kernel input, hence (3) the same unbalanced RDM for every
    per-pair kernel and configuration. -/
theorem layout_dtype_invariant {β γ : Type} (n P : Nat) (castv : β → Option K) (castw : γ → Option K)
    (v : View β) (w : View γ)
    (hsame : ∀ i j, i < n → j < P → castv (v.read i j) = castw (w.read i j)) :
    (∀ i j, i < n → j < P →
      kernelInput n P (ensureDouble castv n P v) i j = castv (v.read i j)) ∧
    kernelInput n P (ensureDouble castv n P v) = kernelInput n P (ensureDouble castw n P w) ∧
    (∀ (base : Cfg K) (k : (Nat → Option K) → (Nat → Option K) → K × K),
      unbRdm (dataCfg base k (kernelInput n P (ensureDouble castv n P v)))
        = unbRdm (dataCfg base k (kernelInput n P (ensureDouble castw n P w)))) := by
  have h2 : kernelInput n P (ensureDouble castv n P v)
      = kernelInput n P (ensureDouble castw n P w) := by
    rw [kernelInput_ensureDouble, kernelInput_ensureDouble]
    funext i ch
    by_cases h : i < n ∧ ch < P
    · rw [if_pos h, if_pos h, hsame i ch h.1 h.2]
    · rw [if_neg h, if_neg h]
  refine ⟨?_, h2, fun base k => by rw [h2]⟩
  intro i j hi hj
  rw [kernelInput_ensureDouble]
  simp [hi, hj]

/-- the standard layouts hold the logical matrix: a C-contiguous and a Fortran-contiguous array
    of the matrix `M` read `M`; an integer array and the float array of the same numbers are
    converted to the same doubles — so `layout_dtype_invariant` applies to each pair of them -/
theorem layouts_hold_matrix (n P : Nat) (M : Nat → Nat → Option K) (Z : Nat → Nat → Int) :
    (∀ i j, i < n → j < P → (rowMajor P M).read i j = M i j) ∧
    (∀ i j, i < n → j < P → (colMajor n M).read i j = M i j) ∧
    kernelInput n P (ensureDouble id n P (rowMajor P M))
      = kernelInput n P (ensureDouble id n P (colMajor n M)) ∧
    kernelInput n P (ensureDouble (castInt (α := K)) n P (colMajor n Z))
      = kernelInput n P (ensureDouble id n P (rowMajor P (fun i j => some (ofInt (Z i j))))) := by
  refine ⟨fun i j _ hj => rowMajor_read P M i j hj, fun i j hi _ => colMajor_read n M i j hi, ?_, ?_⟩
  · refine (layout_dtype_invariant n P id id _ _ ?_).2.1
    intro i j hi hj
    simp only [id, rowMajor_read P M i j hj, colMajor_read n M i j hi]
  · refine (layout_dtype_invariant n P _ id _ _ ?_).2.1
    intro i j hi hj
    simp only [id, colMajor_read n Z i j hi, rowMajor_read P _ i j hj, castInt]

/-- non-vacuity: a view with negative strides into a larger buffer (offset 11, strides −6, −2:
    `X[::-1, ::-1]` of a padded array) and a plain row-major array hold the same 2 × 3 integers -/
example : let v : View Int := { buf := fun k => (k : Int), off := 11, s0 := -6, s1 := -2 }
    let w : View Int := rowMajor 3 (fun i j => 11 - 6 * (i : Int) - 2 * (j : Int))
    ∀ i, i < 2 → ∀ j, j < 3 → v.read i j = w.read i j := by
  decide

/-! ### round 3: conditions, loop bounds and dispatch tables regenerated from the source text -/

/-- The *conditions* of the kernel text (leaves derived from `similarity.pyx`): a pair enters
    only with positive weight (`if weight > 0`), a buffer entry is finalised only with positive
    summed weight (`if weights[idx] > 0`, else NaN), the same for `calc_one`; a pair is admissible
    iff not cross-validating or the fold codes differ; the self term is taken iff not
    cross-validating; `calc_one` always excludes equal fold codes; the inner loop starts at
    `i + 1` (every unordered pair once, no observation with itself). -/
theorem leaf_guards (w : K) (cv a b i : Nat) :
    (pairGuard w = 1 ↔ 0 < w) ∧ (finalGuard w = 1 ↔ 0 < w) ∧ (oneGuard w = 1 ↔ 0 < w) ∧
    (oneFinalGuard w = 1 ↔ 0 < w) ∧ (admCond cv a b = 1 ↔ (cv = 0 ∨ a ≠ b)) ∧
    (selfCond cv = 1 ↔ cv = 0) ∧ (oneAdm a b = 1 ↔ a ≠ b) ∧ innerStart i = i + 1 := by
  refine ⟨?_, ?_, ?_, ?_, ?_, ?_, ?_, rfl⟩
  · unfold pairGuard; by_cases h : 0 < w <;> simp [h]
  · unfold finalGuard; by_cases h : 0 < w <;> simp [h]
  · unfold oneGuard; by_cases h : 0 < w <;> simp [h]
  · unfold oneFinalGuard; by_cases h : 0 < w <;> simp [h]
  · unfold admCond; by_cases h : cv = 0 ∨ ¬ a = b <;> simp [h]
  · unfold selfCond; by_cases h : cv = 0 <;> simp [h]
  · unfold oneAdm; by_cases h : a = b <;> simp [h]

/-- … and the model's loop is built from exactly these conditions: admissibility, the self-term
    switch, the final NaN assignment, the dispatch of the buffer index and the start of the
    inner loop, written with the derived leaves (`flag` = the C int handed to the kernel). -/
theorem model_uses_leaves (c : Cfg K) (i j k n di dj : Nat) (b : Buf K) :
    (adm c i j = true ↔ admCond (if c.crossval then 1 else 0) (c.cv i) (c.cv j) = 1) ∧
    (c.crossval = false ↔ selfCond (if c.crossval then 1 else 0) = 1) ∧
    finalize b k = (if finalGuard (b k).2 = 1 then some (finalDiv (b k).1 (b k).2) else none) ∧
    pairKey n di dj = (if sameCond di dj = 1 then di
      else if gtCond di dj = 1 then idxGt n di dj else idxLe n di dj) ∧
    calcLoop c = forRange c.nObs 0
      (fun i b => forRange (c.nObs - innerStart i) (innerStart i) (pairStep c i) (selfStep c i b))
      (fun _ => (0, 0)) := by
  refine ⟨?_, ?_, ?_, ?_, rfl⟩
  · rw [(leaf_guards (0 : K) _ _ _ 0).2.2.2.2.1]
    unfold adm
    cases c.crossval <;> simp
  · rw [(leaf_guards (0 : K) _ 0 0 0).2.2.2.2.2.1]
    cases c.crossval <;> simp
  · unfold finalize
    by_cases h : 0 < (b k).2
    · simp [h, (leaf_guards (b k).2 0 0 0 0).2.1]
    · simp [h, (leaf_guards (b k).2 0 0 0 0).2.1]
  · unfold pairKey sameCond gtCond
    by_cases h1 : di = dj
    · simp [h1]
    · by_cases h2 : di < dj <;> simp [h1, h2]

/-- The per-channel terms of the kernels (leaves from `similarity.pyx`): a channel counts iff
    neither entry is NaN (the same test in all four kernels), Euclidean product, Poisson term,
    correlation moments, variance arguments of the two `sqrt`, the correlation branch condition,
    `calc_one`'s accumulators — each equals what the model's kernels use.  The coded mahalanobis
    weight and summation bound are `n_dim` (what the property demands is the number of shared
    channels `n_finite`: the known finding). -/
theorem leaf_kernel_terms (x y : Nat → Option K) (xp yp : Nat → Option (K × K)) (c n nf : Nat)
    (s t si si2 sj sj2 : K) :
    validNat x y c = bothValid (nanFlag (x c)) (nanFlag (y c)) ∧
    prodAt x y c = (match x c, y c with | some a, some b => euclidTerm a b | _, _ => 0) ∧
    (oneAt x y c : K) = (match x c, y c with | some _, some _ => ofInt euclidW | _, _ => 0) ∧
    poissonAt xp yp c = (match xp c, yp c with
      | some (di, li), some (dj, lj) => poissonTerm di dj li lj | _, _ => 0) ∧
    corrSi2 s = s * s ∧ corrSij s t = s * t ∧
    corrVarI si2 si n = si2 - si * si / (n : K) ∧ corrVarJ sj2 sj n = sj2 - sj * sj / (n : K) ∧
    (corrCond si2 sj2 = 1 ↔ 0 < si2 ∧ 0 < sj2) ∧
    oneValNumber s = s ∧ oneValEqual s t = s / t ∧ oneWNumber t = t ∧ (ofInt oneWEqual : K) = 1 ∧
    oneFinalDiv s t = s / t ∧
    (mahalWeight n nf : K) = (n : K) ∧ mahalBound n nf = n := by
  refine ⟨?_, ?_, ?_, ?_, rfl, rfl, rfl, rfl, ?_, rfl, rfl, rfl, ?_, rfl, rfl, rfl⟩
  · unfold validNat bothValid nanFlag
    cases x c <;> cases y c <;> simp
  · unfold prodAt euclidTerm
    cases x c <;> cases y c <;> rfl
  · unfold oneAt euclidW
    cases x c <;> cases y c <;> simp [ofInt]
  · unfold poissonAt poissonTerm
    cases xp c <;> cases yp c <;> rfl
  · unfold corrCond
    by_cases h : 0 < si2 ∧ 0 < sj2
    · simp [h.1, h.2]
    · have : ¬ ((((0 : Nat) : K) < si2) ∧ (((0 : Nat) : K) < sj2)) := by simpa using h
      simp only [this, if_false]
      constructor
      · intro e; omega
      · intro e; exact absurd e h
  · simp [oneWEqual, ofInt]

/-- The dispatch tables regenerated from `calc_rdm_unbalanced`, `calc_one_similarity` and the
    three `method_idx` chains of the kernel: all six methods are served; crossnobis uses the
    mahalanobis kernel and poisson_cv the poisson kernel, both cross-validated with *and without*
    a fold descriptor; the four other methods cross-validate iff a fold descriptor is given; the
    single-pair helper uses the same tables; without a precision `method_idx = 3` is Euclidean. -/
theorem dispatch_table :
    methodIdx "euclidean" = some 1 ∧ methodIdx "correlation" = some 2 ∧
    methodIdx "mahalanobis" = some 3 ∧ methodIdx "crossnobis" = some 3 ∧
    methodIdx "poisson" = some 4 ∧ methodIdx "poisson_cv" = some 4 ∧
    (∀ m, oneMethodIdx m = methodIdx m) ∧
    (∀ g, crossvalFlag "crossnobis" g = some 1 ∧ crossvalFlag "poisson_cv" g = some 1) ∧
    (∀ m, m = "euclidean" ∨ m = "correlation" ∨ m = "mahalanobis" ∨ m = "poisson" →
      crossvalFlag m false = some 0 ∧ crossvalFlag m true = some 1) ∧
    weightIdx true = 1 ∧ weightIdx false = 0 ∧ (∀ nb, oneWeightIdx nb = weightIdx nb) ∧
    (∀ g, kernCode 1 g = 1 ∧ kernCode 2 g = 2 ∧ kernCode 4 g = 4) ∧
    kernCode 3 true = 3 ∧ kernCode 3 false = 1 := by
  refine ⟨by decide, by decide, by decide, by decide, by decide, by decide, ?_, ?_, ?_,
    by decide, by decide, ?_, ?_, by decide, by decide⟩
  · intro m; unfold oneMethodIdx methodIdx; rfl
  · intro g; cases g <;> exact ⟨by decide, by decide⟩
  · rintro m (h | h | h | h) <;> subst h <;> exact ⟨by decide, by decide⟩
  · intro nb; cases nb <;> rfl
  · intro g; cases g <;> exact ⟨by decide, by decide, by decide⟩

/-- the correlation kernel (either variant) and the coded mahalanobis weight, written with the
    derived leaves: branch condition `corrCond`, variance arguments `corrVarI/J`, `mahalWeight` -/
theorem kernels_by_leaves [HasSqrt K] (coded : Bool) (P : Nat) (N : Nat → Nat → K)
    (x y : Nat → Option K) :
    corrK coded P x y =
      (let si := sumTo P (fstAt x y)
       let sj := sumTo P (sndAt x y)
       let si2 := sumTo P (fun c => fstAt x y c * fstAt x y c)
       let sj2 := sumTo P (fun c => sndAt x y c * sndAt x y c)
       let n : Nat := if coded then P else cntValid P x y
       (corrScale (if corrCond si2 sj2 = 1 then
          corrCov (sumTo P (prodAt x y)) si sj n / HasSqrt.sqrt (corrVarI si2 si n)
            / HasSqrt.sqrt (corrVarJ sj2 sj n) else 1) n, sumTo P (oneAt x y))) ∧
    (mahalK true P N x y).2 = mahalWeight P (cntValid P x y) := by
  refine ⟨?_, rfl⟩
  unfold corrK
  simp only [(leaf_kernel_terms x y (fun _ => none) (fun _ => none) 0 0 0 0 0 0 _ 0 _).2.2.2.2.2.2.2.2.1]
  rfl

/-- The second result of the single-pair helper is the summed weight of the admissible ordered
    observation pairs (`rectDen`: number of shared channels per pair for weighting 'number', the
    number of valid pairs for 'equal'), and `calc_one` is assembled from the leaves of its text
    (see `leaf_kernel_terms`, `leaf_guards`). -/
theorem calc_one_weight (c : Cfg K) (hcv : c.crossval = true)
    (a b : Nat) (na nb : Nat) (ia ib : Nat → Nat)
    (hinja : ∀ i j, i < na → j < na → ia i = ia j → i = j)
    (himga : ∀ i', (i' < c.nObs ∧ c.desc i' = a) ↔ ∃ i, i < na ∧ ia i = i')
    (hinjb : ∀ i j, i < nb → j < nb → ib i = ib j → i = j)
    (himgb : ∀ i', (i' < c.nObs ∧ c.desc i' = b) ↔ ∃ i, i < nb ∧ ib i = i') :
    (calcOne na nb (fun i => c.cv (ia i)) (fun j => c.cv (ib j)) c.number
      (fun i j => c.kern (ia i) (ib j))).2 = rectDen c a b :=
  calcOne_weight c hcv a b na nb ia ib hinja himga hinjb himgb

/-- non-vacuity for `calc_one_eq_entry` / `calc_one_weight`: observations 0, 2 of condition 0 and
    1 of condition 1 among three, enumerated by `ia = (0, 2)`, `ib = (1)` -/
example : let desc : Nat → Nat := fun i => i % 2
    let ia : Nat → Nat := fun i => 2 * i
    (∀ i, i < 2 → ∀ j, j < 2 → ia i = ia j → i = j) ∧
    (∀ i', i' < 3 → (desc i' = 0 ↔ ∃ i, i < 2 ∧ ia i = i')) := by
  decide

/-- The Python layer splits the kernel's result at `len(unique_cond)` (self-similarities first,
    then the condensed cross-similarities) and enumerates pairs with `np.triu_indices(n, 1)`
    (leaves derived from the slices / the call): exactly the layout `assemble` reads —
    `out a`, `out b` for the self terms and `out (n + p)` for position `p` — and that
    `idx_position` ties to the kernel's buffer index. -/
theorem leaf_python_slices (n : Nat) (out : Nat → Option K) :
    selfStop n = n ∧ crossStart n = n ∧ triuN n = n ∧ triuK = 1 ∧
    assemble n out = (pairs (triuN n)).zipIdx.map (fun (ab, p) =>
      match out ab.1, out ab.2, out (crossStart n + p) with
      | some sa, some sb, some cab => some (combine sa sb cab)
      | _, _, _ => none) :=
  ⟨rfl, rfl, rfl, rfl, rfl⟩

/-! ### list input (round 4) -/

/-- The list branch of `calc_rdm_unbalanced` in the text under check is a stateless loop: every
    collected element is `calc_rdm_unbalanced(dat, …)` with the caller's arguments passed through
    (`noise` or `noise[i_dat]`), and no name is carried from one iteration to the next (leaves
    derived from the AST of the loop; a cache of the previous dataset's coding, an argument
    overwritten per dataset, or a dropped keyword breaks this obligation). -/
theorem list_loop_stateless : listCarried = 0 ∧ listPassthrough = 1 := ⟨rfl, rfl⟩

/-- Row `k` of the result for a list is the `k`-th dataset computed alone, and there is exactly
    one row per dataset. -/
theorem list_rowwise (cs : List (Cfg K)) :
    (unbList cs).length = cs.length ∧
    ∀ k : Nat, (unbList cs)[k]? = (cs[k]?).map unbRdm := by
  have h : unbList cs = cs.map unbRdm := by
    unfold unbList; rw [if_pos list_loop_stateless]
  rw [h]
  exact ⟨List.length_map _, fun k => List.getElem?_map⟩

/-- … hence the average over *its own* admissible observation pairs (its own condition codes,
    fold codes, weights, kernel), position by position — whatever the other datasets are. -/
theorem list_row_eq_spec (cs : List (Cfg K))
    (hhalf : ∀ c ∈ cs, c.half = 1 / two)
    (hdesc : ∀ c ∈ cs, ∀ i, i < c.nObs → c.desc i < c.n) :
    unbList cs = cs.map (fun c => (pairs c.n).map (fun ab => specDist c ab.1 ab.2)) := by
  have h : unbList cs = cs.map unbRdm := by
    unfold unbList; rw [if_pos list_loop_stateless]
  rw [h]
  apply List.map_congr_left
  intro c hc
  exact (unb_eq_spec c (hhalf c hc) (hdesc c hc)).2

/-- Non-interference: replacing dataset `j` of the list leaves every other row unchanged. -/
theorem list_noninterference (cs : List (Cfg K)) (j k : Nat) (c' : Cfg K) (hjk : j ≠ k) :
    (unbList (cs.set j c'))[k]? = (unbList cs)[k]? := by
  rw [(list_rowwise _).2, (list_rowwise _).2, List.getElem?_set_ne hjk]

/-- A loop that remembers the predecessor's coding and reuses it when `key` is unchanged gives
    what coding every dataset afresh gives, *provided the key determines the coding*
    (for all lists, from any state reached). -/
theorem cached_coding_sound {δ κ ρ : Type} [DecidableEq κ] (key : δ → κ) (code : δ → ρ)
    (hkey : ∀ d d', key d = key d' → code d = code d') (ds : List δ) :
    threaded (cachedStep key code) none ds = ds.map code := by
  suffices h : ∀ (ds : List δ) (s : Option (κ × ρ)),
      (s = none ∨ ∃ d0, s = some (key d0, code d0)) →
      threaded (cachedStep key code) s ds = ds.map code from h ds none (Or.inl rfl)
  intro ds
  induction ds with
  | nil => intro s _; rfl
  | cons d ds ih =>
    intro s hs
    rcases hs with rfl | ⟨d0, rfl⟩
    · simp only [threaded, cachedStep, List.map_cons]
      rw [ih _ (Or.inr ⟨d, rfl⟩)]
    · simp only [threaded, cachedStep, List.map_cons]
      by_cases hk : key d = key d0
      · rw [if_pos hk]
        simp only
        rw [ih _ (Or.inr ⟨d0, rfl⟩), hkey d d0 hk]
      · rw [if_neg hk]
        simp only
        rw [ih _ (Or.inr ⟨d, rfl⟩)]

/-- The whole design (condition vector *and* fold vector) is such a key; the condition vector
    alone is not: two datasets with the same condition vector and other folds, the second one
    gets the first one's fold coding (seeded change C15-7). -/
theorem coding_key_needs_folds :
    (∀ ds : List Design, threaded (cachedStep id codeDesign) none ds = ds.map codeDesign) ∧
    ∃ ds : List Design,
      threaded (cachedStep (fun d => d.labels) codeDesign) none ds ≠ ds.map codeDesign := by
  refine ⟨fun ds => cached_coding_sound id codeDesign (fun d d' h => by cases h; rfl) ds,
    [⟨[0, 1, 0, 1], some [0, 0, 1, 1]⟩, ⟨[0, 1, 0, 1], some [0, 1, 1, 0]⟩], by decide⟩

/-- non-vacuity: a list of two configurations that satisfy the hypotheses of `list_row_eq_spec`
    (codes below `n`, exact half), and the codings of the two designs above differ -/
example : codeDesign ⟨[0, 1, 0, 1], some [0, 0, 1, 1]⟩ ≠ codeDesign ⟨[0, 1, 0, 1], some [0, 1, 1, 0]⟩ ∧
    (codeDesign ⟨[7, 3, 7], none⟩).uniq = [7, 3] ∧ (codeDesign ⟨[7, 3, 7], none⟩).desc = [0, 1, 0] := by
  decide

example : let c : Cfg ℚ := { nObs := 2, n := 2, desc := fun i => i, cv := fun i => i, crossval := false,
                              number := true, kern := fun _ _ => (1, 1), half := 1 / two }
    (∀ c' ∈ [c, c], c'.half = 1 / two) ∧ (∀ c' ∈ [c, c], ∀ i, i < c'.nObs → c'.desc i < c'.n) := by
  intro c
  refine ⟨fun c' hc => ?_, fun c' hc i hi => ?_⟩ <;>
    (simp only [List.mem_cons, List.not_mem_nil, or_false, or_self] at hc; subst hc) <;> simp_all [c]

end Rsa.Props.C15
