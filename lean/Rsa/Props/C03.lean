/-
  Property C03 — RDM comparison measures equal their definitions for every pair of RDMs.
  Property theorems only; helper lemmas live in Rsa/Lemmas/C03*.lean.

  Model: `Rsa.Core.Compare` (generic, executed by the driver at Float / Rat).  Here the same
  terms are instantiated at `ℝ` (measures with a square root) or at an arbitrary linearly
  ordered field `K` (tau-a, rho-a, V).

  Conventions.  An RDM is its condensed vector.  "A simultaneous permutation of the
  entries" of two vectors `x y` is `(x.zip y).Perm (x'.zip y')`; `cond_perm_entries` shows
  that a permutation of the *conditions* of two RDMs is such a permutation of the entries.
-/
import Rsa.Lemmas.C03
import Rsa.Lemmas.C03Kendall
import Rsa.Lemmas.C03Whiten
import Rsa.Lemmas.C03Rho
import Rsa.Lemmas.C03Cka
import Rsa.Lemmas.C03PosDef
import Rsa.Lemmas.C03RhoRange
import Rsa.Lemmas.C03PosDefVec
import Rsa.Lemmas.C03Coded3
import Rsa.Lemmas.C03BuresBridge
import Rsa.Lemmas.C03Gram
import Rsa.Lemmas.C03Session
import Rsa.Lemmas.C03Scale
import Mathlib.Tactic.IntervalCases
import Mathlib.Algebra.BigOperators.Field

set_option linter.unusedSectionVars false
set_option linter.unusedVariables false
set_option linter.unusedSimpArgs false

namespace Rsa.Props.C03

open Rsa Rsa.Compare

/-! ## 1. the result matrix pairs RDM i of the first with RDM j of the second stack -/

theorem compareAll_shape {β γ : Type} (f : β → β → γ) (xs ys : List β) :
    (compareAll f xs ys).length = xs.length ∧ ∀ r ∈ compareAll f xs ys, r.length = ys.length := by
  constructor
  · simp [compareAll]
  · intro r hr
    simp only [compareAll, List.mem_map] at hr
    obtain ⟨x, _, rfl⟩ := hr
    simp

theorem compareAll_entry {β γ : Type} (f : β → β → γ) (xs ys : List β) (i j : Nat)
    (hi : i < xs.length) (hj : j < ys.length) :
    ∃ (h1 : i < (compareAll f xs ys).length) (h2 : j < ((compareAll f xs ys)[i]).length),
      ((compareAll f xs ys)[i])[j] = f xs[i] ys[j] := by
  refine ⟨by simpa [compareAll] using hi, by simpa [compareAll] using hj, ?_⟩
  simp [compareAll]

example : compareAll (fun a b : Nat => 10 * a + b) [1, 2, 3] [4, 5] = [[14, 15], [24, 25], [34, 35]] := by
  decide

/-! ## 2. cosine, Pearson correlation, Spearman -/

/-- zipped entries of two equally long vectors, and back -/
theorem unzip_zip {x y : List ℝ} (h : x.length = y.length) :
    (x.zip y).map Prod.fst = x ∧ (x.zip y).map Prod.snd = y :=
  ⟨List.map_fst_zip (le_of_eq h), List.map_snd_zip (le_of_eq h.symm)⟩

/-- the coded cosine is the definition `⟨x,y⟩ / (‖x‖‖y‖)`; the guard value is 0 -/
theorem cosine_def (x y : List ℝ) :
    (0 < dot x x → 0 < dot y y →
      cosine x y = dot x y / (Real.sqrt (dot x x) * Real.sqrt (dot y y))) ∧
    (dot x x = 0 ∨ dot y y = 0 → cosine x y = 0) := by
  refine ⟨fun hx hy => cosine_pos_def hx hy, fun h => ?_⟩
  rw [cosine_eq, if_neg]
  rintro ⟨h1, h2⟩
  rcases h with h | h
  · rw [h] at h1; simp at h1
  · rw [h] at h2; simp at h2

theorem cosine_symm (x y : List ℝ) : cosine x y = cosine y x := cosine_symm' x y

theorem cosine_abs_le_one (x y : List ℝ) : |cosine x y| ≤ 1 := cosine_abs_le_one' x y

theorem cosine_self (x : List ℝ) (hx : ∃ a ∈ x, a ≠ 0) : cosine x x = 1 := by
  obtain ⟨a, ha, hne⟩ := hx
  exact cosine_self' (dot_self_pos_of_mem ha hne)

theorem cosine_perm (x y x' y' : List ℝ) (h : x.length = y.length) (h' : x'.length = y'.length)
    (hp : (x.zip y).Perm (x'.zip y')) : cosine x y = cosine x' y' := by
  have := cosine_perm' hp
  rwa [(unzip_zip h).1, (unzip_zip h).2, (unzip_zip h').1, (unzip_zip h').2] at this

-- non-vacuity of `cosine_self`
example : ∃ a ∈ ([3, 0, 4] : List ℝ), a ≠ 0 := ⟨3, by simp, by norm_num⟩

/-- Pearson: the coded value is the textbook formula on deviations from the mean -/
theorem corr_def (x y : List ℝ) (hx : 0 < dot (center x) (center x))
    (hy : 0 < dot (center y) (center y)) :
    corr x y = dot (center x) (center y) /
      (Real.sqrt (dot (center x) (center x)) * Real.sqrt (dot (center y) (center y))) ∧
    center x = x.map (fun a => a - x.sum / x.length) := by
  exact ⟨cosine_pos_def hx hy, rfl⟩

theorem corr_symm (x y : List ℝ) : corr x y = corr y x := cosine_symm' _ _

theorem corr_abs_le_one (x y : List ℝ) : |corr x y| ≤ 1 := cosine_abs_le_one' _ _

/-- a non-constant vector (some entry differs from the mean) correlates 1 with itself -/
theorem corr_self (x : List ℝ) (hx : ∃ a ∈ x, a ≠ mean x) : corr x x = 1 := by
  obtain ⟨a, ha, hne⟩ := hx
  apply cosine_self' (dot_self_pos_of_mem (a := a - mean x) _ (sub_ne_zero.mpr hne))
  exact List.mem_map.mpr ⟨a, ha, rfl⟩

theorem corr_perm (x y x' y' : List ℝ) (h : x.length = y.length) (h' : x'.length = y'.length)
    (hp : (x.zip y).Perm (x'.zip y')) : corr x y = corr x' y' := by
  have := corr_perm' hp
  rwa [(unzip_zip h).1, (unzip_zip h).2, (unzip_zip h').1, (unzip_zip h').2] at this

theorem spearman_symm (x y : List ℝ) : spearman x y = spearman y x := cosine_symm' _ _

theorem spearman_abs_le_one (x y : List ℝ) : |spearman x y| ≤ 1 := cosine_abs_le_one' _ _

/-- a vector with two different values has Spearman correlation 1 with itself -/
theorem spearman_self (x : List ℝ) (hx : ∃ a ∈ x, ∃ b ∈ x, a < b) : spearman x x = 1 := by
  apply corr_self
  exact avgRank_nonconstant hx

theorem spearman_perm (x y x' y' : List ℝ) (h : x.length = y.length) (h' : x'.length = y'.length)
    (hp : (x.zip y).Perm (x'.zip y')) : spearman x y = spearman x' y' := by
  have := spearman_perm' hp
  rwa [(unzip_zip h).1, (unzip_zip h).2, (unzip_zip h').1, (unzip_zip h').2] at this

-- non-vacuity of `corr_self` / `spearman_self`
example : ∃ a ∈ ([1, 2, 2] : List ℝ), ∃ b ∈ ([1, 2, 2] : List ℝ), a < b :=
  ⟨1, by simp, 2, by simp, by norm_num⟩

/-! ## 3. Kendall tau-a and tau-b -/

section kendall
variable {K : Type} [Field K] [LinearOrder K] [IsStrictOrderedRing K]

theorem zip_map_fst_snd {β : Type} (l : List (β × β)) : (l.map Prod.fst).zip (l.map Prod.snd) = l := by
  induction l with
  | nil => rfl
  | cons p l ih => simp [ih]

/-- every unordered pair of entries is exactly one of: concordant, discordant, tied in x
    only, tied in y only, tied in both — hence `con + dis + xtie + ytie = C(n,2) + ntie`,
    the identity behind the coded tau-a formula (arbitrary ties). -/
theorem pair_classes (x y : List K) (h : x.length = y.length) :
    nCon x y + nDis x y + nTieX x y + nTieY x y = triLen x.length + nTieXY x y := by
  have := pair_classes_count (x.zip y)
  simpa [nCon, nDis, nTieX, nTieY, nTieXY, List.length_zip, h] using this

theorem conMinusDis_eq (x y : List K) (h : x.length = y.length) :
    conMinusDis x y = (nCon x y : Int) - (nDis x y : Int) := by
  have := pair_classes x y h
  unfold conMinusDis Rsa.Gen.C03.conMinusDis
  rw [tauTot_eq]
  omega

theorem con_add_dis_le (x y : List K) (h : x.length = y.length) :
    nCon x y + nDis x y ≤ triLen x.length := by
  have := pair_classes_x (x.zip y)
  simp only [List.length_zip, h, Nat.min_self] at this
  unfold nCon nDis
  rw [h]; omega

theorem tauASpec_range (x y : List K) (h : x.length = y.length) :
    -1 ≤ tauASpec x y ∧ tauASpec x y ≤ 1 := by
  unfold tauASpec
  have hle := con_add_dis_le x y h
  have hle' : ((nCon x y : K) + (nDis x y : K)) ≤ (triLen x.length : K) := by exact_mod_cast hle
  have hc : (0 : K) ≤ (nCon x y : K) := Nat.cast_nonneg _
  have hd : (0 : K) ≤ (nDis x y : K) := Nat.cast_nonneg _
  rcases Nat.eq_zero_or_pos (triLen x.length) with h0 | hpos
  · rw [h0]; simp
  · have hp : (0 : K) < (triLen x.length : K) := by exact_mod_cast hpos
    rw [le_div_iff₀ hp, div_le_iff₀ hp]
    constructor <;> linarith

/-- **the coded tau-a equals the definition** `(concordant − discordant) / C(n,2)` for all
    vectors of equal length, with arbitrary ties (the clamp never acts) -/
theorem tauA_algo_eq_spec (x y : List K) (h : x.length = y.length) : tauA x y = tauASpec x y := by
  have hr := tauASpec_range x y h
  unfold tauA Rsa.Gen.C03.tauClamp Rsa.Gen.C03.tauRatio
  rw [castInt_eq, conMinusDis_eq x y h, tauTot_eq]
  have : (((nCon x y : Int) - (nDis x y : Int) : Int) : K) / ((triLen x.length : Nat) : K) = tauASpec x y := by
    unfold tauASpec; push_cast; rfl
  rw [this]
  simp only [Nat.cast_one]
  rw [max_eq_right hr.1, min_eq_right hr.2]

theorem counts_swap (x y : List K) :
    nCon y x = nCon x y ∧ nDis y x = nDis x y ∧ nTieX y x = nTieY x y ∧ nTieY y x = nTieX x y ∧
    nTieXY y x = nTieXY x y := by
  unfold nCon nDis nTieX nTieY nTieXY
  rw [← List.zip_swap x y]
  simp only [countPairs_map]
  refine ⟨?_, ?_, ?_, ?_, ?_⟩ <;> congr 1 <;> funext p q <;>
    simp [concordant, discordant, tieX, tieY, tieXY, Bool.and_comm, Bool.or_comm]

theorem tauA_symm (x y : List K) (h : x.length = y.length) : tauA x y = tauA y x := by
  rw [tauA_algo_eq_spec x y h, tauA_algo_eq_spec y x h.symm]
  obtain ⟨h1, h2, -, -, -⟩ := counts_swap x y
  unfold tauASpec
  rw [h1, h2, h]

theorem tauA_range (x y : List K) (h : x.length = y.length) : -1 ≤ tauA x y ∧ tauA x y ≤ 1 := by
  rw [tauA_algo_eq_spec x y h]; exact tauASpec_range x y h

/-- all five pair counts are invariant under a simultaneous permutation of the entries -/
theorem counts_perm {l l' : List (K × K)} (hp : l.Perm l') :
    countPairs concordant l = countPairs concordant l' ∧
    countPairs discordant l = countPairs discordant l' ∧
    countPairs tieX l = countPairs tieX l' ∧ countPairs tieY l = countPairs tieY l' ∧
    countPairs tieXY l = countPairs tieXY l' :=
  ⟨countPairs_perm _ concordant_symm hp, countPairs_perm _ discordant_symm hp,
   countPairs_perm _ tieX_symm hp, countPairs_perm _ tieY_symm hp,
   countPairs_perm _ tieXY_symm hp⟩

theorem tauA_perm (x y x' y' : List K) (h : x.length = y.length) (h' : x'.length = y'.length)
    (hp : (x.zip y).Perm (x'.zip y')) : tauA x y = tauA x' y' := by
  rw [tauA_algo_eq_spec x y h, tauA_algo_eq_spec x' y' h']
  obtain ⟨h1, h2, -, -, -⟩ := counts_perm hp
  have hl : x.length = x'.length := by
    have := hp.length_eq
    simp only [List.length_zip, h, h', Nat.min_self] at this
    rw [h, h', this]
  unfold tauASpec nCon nDis
  rw [h1, h2, hl]

theorem zip_self {β : Type} (x : List β) : x.zip x = x.map (fun a => (a, a)) := by
  induction x with
  | nil => rfl
  | cons a x ih => simp [ih]

theorem counts_self (x : List K) :
    nDis x x = 0 ∧ nTieY x x = nTieX x x ∧ nTieXY x x = nTieX x x := by
  unfold nDis nTieX nTieY nTieXY
  rw [zip_self]
  simp only [countPairs_map]
  refine ⟨?_, ?_, ?_⟩
  · unfold countPairs
    apply List.countP_eq_zero.mpr
    intro pq _
    by_cases h : pq.1 < pq.2 <;> simp [discordant, h, lt_asymm]
  · rfl
  · congr 1; funext a b; simp [tieXY, tieX]

/-- tau-a of a vector with itself is `1 − (tied pairs)/C(n,2)`: it is 1 exactly when there
    are no ties — *by definition* of tau-a. -/
theorem tauA_self (x : List K) (hn : 0 < triLen x.length) :
    tauA x x = 1 - (nTieX x x : K) / (triLen x.length : K) := by
  rw [tauA_algo_eq_spec x x rfl]
  have hcls := pair_classes x x rfl
  obtain ⟨hd, hy, hxy⟩ := counts_self x
  rw [hd, hy, hxy] at hcls
  have hc : nCon x x + nTieX x x = triLen x.length := by omega
  have hp : (triLen x.length : K) ≠ 0 := by exact_mod_cast hn.ne'
  have hc' : (nCon x x : K) = (triLen x.length : K) - (nTieX x x : K) := by
    rw [← hc]; push_cast; ring
  unfold tauASpec
  rw [hd, hc']
  field_simp
  simp

/-- the witness that self-similarity is below 1 with ties, by definition and in the code -/
theorem tauA_self_ties_witness : tauA ([1, 1, 2] : List ℚ) [1, 1, 2] = 2 / 3 := by
  rw [tauA_self _ (by decide)]
  have : nTieX ([1, 1, 2] : List ℚ) [1, 1, 2] = 1 := by decide
  rw [this]
  norm_num [triLen]

end kendall

/-! ### tau-b (scipy's `kendalltau`, variant b) over `ℝ` -/

theorem tauB_spec_bound (x y : List ℝ) (h : x.length = y.length) :
    ((nCon x y : ℝ) - (nDis x y : ℝ)) * ((nCon x y : ℝ) - (nDis x y : ℝ)) ≤
      ((triLen x.length - nTieX x y : ℕ) : ℝ) * ((triLen x.length - nTieY x y : ℕ) : ℝ) := by
  have hx := pair_classes_x (x.zip y)
  have hy := pair_classes_y (x.zip y)
  simp only [List.length_zip, h, Nat.min_self] at hx hy
  have hx' : nCon x y + nDis x y ≤ triLen x.length - nTieX x y := by
    unfold nCon nDis nTieX; rw [h]; omega
  have hy' : nCon x y + nDis x y ≤ triLen x.length - nTieY x y := by
    unfold nCon nDis nTieY; rw [h]; omega
  have hx'' : (nCon x y : ℝ) + (nDis x y : ℝ) ≤ ((triLen x.length - nTieX x y : ℕ) : ℝ) := by
    exact_mod_cast hx'
  have hy'' : (nCon x y : ℝ) + (nDis x y : ℝ) ≤ ((triLen x.length - nTieY x y : ℕ) : ℝ) := by
    exact_mod_cast hy'
  have hc : (0 : ℝ) ≤ (nCon x y : ℝ) := Nat.cast_nonneg _
  have hd : (0 : ℝ) ≤ (nDis x y : ℝ) := Nat.cast_nonneg _
  have h1 : ((nCon x y : ℝ) - (nDis x y : ℝ)) * ((nCon x y : ℝ) - (nDis x y : ℝ)) ≤
      ((nCon x y : ℝ) + (nDis x y : ℝ)) * ((nCon x y : ℝ) + (nDis x y : ℝ)) := by nlinarith
  have h2 : ((nCon x y : ℝ) + (nDis x y : ℝ)) * ((nCon x y : ℝ) + (nDis x y : ℝ)) ≤
      ((triLen x.length - nTieX x y : ℕ) : ℝ) * ((triLen x.length - nTieY x y : ℕ) : ℝ) :=
    mul_le_mul hx'' hy'' (by linarith) (by linarith)
  linarith

theorem tauBSpec_abs_le_one (x y : List ℝ) (h : x.length = y.length) : |tauBSpec x y| ≤ 1 := by
  unfold tauBSpec
  simp only [hasSqrt_real]
  rw [abs_div, abs_of_nonneg (Real.sqrt_nonneg _)]
  apply div_le_one_of_le₀ _ (Real.sqrt_nonneg _)
  apply Real.abs_le_sqrt
  rw [sq]
  exact tauB_spec_bound x y h

/-- **the coded tau-b equals the definition** `(con − dis)/√((C(n,2)−xtie)(C(n,2)−ytie))`,
    and is NaN (`none`) exactly when one of the vectors is constant -/
theorem tauB_algo_eq_spec (x y : List ℝ) (h : x.length = y.length) :
    tauB x y = if nTieX x y = triLen x.length ∨ nTieY x y = triLen x.length then none
      else some (tauBSpec x y) := by
  unfold tauB
  simp only [tauTot_eq]
  by_cases hc : nTieX x y = triLen x.length ∨ nTieY x y = triLen x.length
  · simp only [hc, ↓reduceIte]
  · simp only [hc, ↓reduceIte]
    congr 1
    have hb := tauBSpec_abs_le_one x y h
    rw [abs_le] at hb
    have e : castInt (conMinusDis x y) / HasSqrt.sqrt ((triLen x.length - nTieX x y : ℕ) : ℝ)
        / HasSqrt.sqrt ((triLen x.length - nTieY x y : ℕ) : ℝ) = tauBSpec x y := by
      unfold tauBSpec
      simp only [hasSqrt_real]
      rw [castInt_eq, conMinusDis_eq x y h, div_div, ← Real.sqrt_mul (Nat.cast_nonneg _)]
      push_cast
      rfl
    rw [e]
    unfold Rsa.Gen.C03.tauClamp
    simp only [Nat.cast_one]
    rw [max_eq_right hb.1, min_eq_right hb.2]

theorem tauB_symm (x y : List ℝ) (h : x.length = y.length) : tauB x y = tauB y x := by
  rw [tauB_algo_eq_spec x y h, tauB_algo_eq_spec y x h.symm]
  obtain ⟨h1, h2, h3, h4, -⟩ := counts_swap x y
  unfold tauBSpec
  rw [h1, h2, h3, h4, ← h, mul_comm]
  exact if_congr or_comm rfl rfl

theorem tauB_range (x y : List ℝ) (h : x.length = y.length) (v : ℝ) (hv : tauB x y = some v) :
    |v| ≤ 1 := by
  rw [tauB_algo_eq_spec x y h] at hv
  split_ifs at hv
  cases hv
  exact tauBSpec_abs_le_one x y h

theorem tauB_perm (x y x' y' : List ℝ) (h : x.length = y.length) (h' : x'.length = y'.length)
    (hp : (x.zip y).Perm (x'.zip y')) : tauB x y = tauB x' y' := by
  rw [tauB_algo_eq_spec x y h, tauB_algo_eq_spec x' y' h']
  obtain ⟨h1, h2, h3, h4, -⟩ := counts_perm hp
  have hl : x.length = x'.length := by
    have := hp.length_eq
    simp only [List.length_zip, h, h', Nat.min_self] at this
    rw [h, h', this]
  unfold tauBSpec nCon nDis nTieX nTieY
  rw [h1, h2, h3, h4, hl]

/-- a non-constant vector has tau-b 1 with itself (ties do not matter for tau-b) -/
theorem tauB_self (x : List ℝ) (hx : nTieX x x ≠ triLen x.length) : tauB x x = some 1 := by
  rw [tauB_algo_eq_spec x x rfl]
  obtain ⟨hd, hy, hxy⟩ := counts_self x
  have hcls := pair_classes x x rfl
  rw [hd, hy, hxy] at hcls
  have hc : nCon x x = triLen x.length - nTieX x x := by omega
  have hle : nTieX x x ≤ triLen x.length := countPairs_le_length _ _ |>.trans (by simp)
  have hpos : 0 < triLen x.length - nTieX x x := by omega
  rw [hy, if_neg (by simpa using hx)]
  congr 1
  unfold tauBSpec
  simp only [hasSqrt_real]
  rw [hd, hy, hc, Real.sqrt_mul_self (Nat.cast_nonneg _)]
  have : ((triLen x.length - nTieX x x : ℕ) : ℝ) ≠ 0 := by exact_mod_cast hpos.ne'
  simp [this]

-- non-vacuity: a vector with a tie that is not constant
example : nTieX ([1, 1, 2] : List ℝ) [1, 1, 2] ≠ triLen 3 := by
  have : nTieX ([1, 1, 2] : List ℝ) [1, 1, 2] = 1 := by
    simp [nTieX, countPairs, pairsOf, tieX, tiedB]
  rw [this]; decide

/-! ## 4. rho-a -/

/-- the coded rho-a is the bilinear form of the centred tie-averaged ranks with the
    constant `12/(n³−n)` -/
theorem rhoA_def (x y : List ℝ) :
    rhoA x y = 12 / ((x.length : ℝ) ^ 3 - x.length) *
      dot (center (avgRank x)) (center (avgRank y)) := by
  unfold rhoA
  push_cast
  ring

/-- the tie-averaged rank of a value is the mean of the ordinal positions
    `cntLt+1, …, cntLt+cntEq` its tie group occupies — the expected position of the entry
    when ties are broken uniformly at random. -/
theorem rankOf_mean_of_positions (x : List ℝ) (a : ℝ) (ha : a ∈ x) :
    rankOf x a = ((List.range (cntEq x a)).map (fun (k : ℕ) => (cntLt x a : ℝ) + ((k : ℝ) + 1))).sum
      / (cntEq x a : ℝ) := by
  have hpos : (0 : ℝ) < (cntEq x a : ℝ) := by exact_mod_cast cntEq_pos ha
  have hsum : ∀ (L : ℝ) (E : ℕ), ((List.range E).map (fun (k : ℕ) => L + ((k : ℝ) + 1))).sum
      = E * L + E * (E + 1) / 2 := by
    intro L E
    induction E with
    | zero => simp
    | succ E ih => rw [List.range_succ, List.map_append, List.sum_append, ih]; simp; ring
  rw [hsum]
  unfold rankOf
  field_simp
  push_cast
  ring

/-- what is *not* formalised: that under uniformly random tie-breaking every position of
    the tie group is equally likely, so that `rankOf` is the expected rank and (by
    bilinearity) rho-a the expected Spearman correlation. -/
def rhoA_expected_full : Prop :=
  ∀ x y : List ℝ, x.length = y.length →
    ∃ expectedSpearmanUnderRandomTieBreaking : ℝ, rhoA x y = expectedSpearmanUnderRandomTieBreaking

theorem rhoA_symm (x y : List ℝ) (h : x.length = y.length) : rhoA x y = rhoA y x := by
  rw [rhoA_def, rhoA_def, dot_comm, h]

theorem rhoA_perm (x y x' y' : List ℝ) (h : x.length = y.length) (h' : x'.length = y'.length)
    (hp : (x.zip y).Perm (x'.zip y')) : rhoA x y = rhoA x' y' := by
  have := rhoA_perm' hp
  rwa [(unzip_zip h).1, (unzip_zip h).2, (unzip_zip h').1, (unzip_zip h').2] at this

/-- range of rho-a, **partial**: by Cauchy–Schwarz `|rho-a| ≤ 12/(n³−n)·√(Sx·Sy)` with
    `S = Σ (rank − mean rank)²`.  Missing for `|rho-a| ≤ 1`: `S ≤ (n³−n)/12` (tie-averaged
    ranks have at most the variance of untied ranks). -/
theorem rhoA_range_partial (x y : List ℝ) (hn : 2 ≤ x.length) :
    |rhoA x y| ≤ 12 / ((x.length : ℝ) ^ 3 - x.length) *
      Real.sqrt (dot (center (avgRank x)) (center (avgRank x)) *
        dot (center (avgRank y)) (center (avgRank y))) := by
  rw [rhoA_def]
  have hn' : (2 : ℝ) ≤ (x.length : ℝ) := by exact_mod_cast hn
  have hpos : 0 < (x.length : ℝ) ^ 3 - x.length := by nlinarith [sq_nonneg ((x.length : ℝ) - 1)]
  rw [abs_mul, abs_of_pos (div_pos (by norm_num) hpos)]
  apply mul_le_mul_of_nonneg_left _ (div_pos (by norm_num) hpos).le
  apply Real.abs_le_sqrt
  rw [sq]
  exact dot_sq_le _ _

def rhoA_range_full : Prop := ∀ x y : List ℝ, x.length = y.length → |rhoA x y| ≤ 1

/-- rho-a of a vector without ties (length ≥ 2) with itself is 1; with ties it is below 1
    by definition (the tie-averaged ranks have a smaller sum of squares). -/
theorem rhoA_self_no_ties (x : List ℝ) (hx : x.Nodup) (hn : 2 ≤ x.length) : rhoA x x = 1 :=
  rhoA_self_nodup x hx hn

example : ([3, 1, 2] : List ℝ).Nodup ∧ 2 ≤ ([3, 1, 2] : List ℝ).length := by
  constructor
  · simp
  · simp

/-! ## 5. the covariance `V` of the RDM entries -/

section getv
variable {K : Type} [Field K]

/-- `_get_v` (contrast-matrix products) computes the definition
    `V[(i,j),(k,l)] = (σ_ik − σ_il − σ_jk + σ_jl)²` -/
theorem getV_entry (n : ℕ) (s : SigmaK K) : getV n s = vSpec n s.entry := getV_eq_vSpec n s

theorem vSpec_congr (n : ℕ) (s t : ℕ → ℕ → K) (h : ∀ i j, i < n → j < n → s i j = t i j) :
    vSpec n s = vSpec n t := by
  unfold vSpec
  apply List.map_congr_left
  intro p hp
  apply List.map_congr_left
  intro q hq
  obtain ⟨p1, p2⟩ := mem_pairs_lt hp
  obtain ⟨q1, q2⟩ := mem_pairs_lt hq
  unfold xiSpec
  rw [h _ _ p1 q1, h _ _ p1 q2, h _ _ p2 q1, h _ _ p2 q2]

def identRows (n : ℕ) : List (List K) :=
  (List.range n).map (fun i => (List.range n).map (fun j => if i = j then 1 else 0))

def diagRows (n : ℕ) (v : List K) : List (List K) :=
  (List.range n).map (fun i => (List.range n).map (fun j => if i = j then v.getD i 0 else 0))

theorem rows_entry (n : ℕ) (f : ℕ → ℕ → K) (i j : ℕ) (hi : i < n) (hj : j < n) :
    (((List.range n).map (fun i => (List.range n).map (fun j => f i j))).getD i []).getD j 0
      = f i j := by
  simp [List.getD_eq_getElem?_getD, List.getElem?_map, List.getElem?_range, hi, hj]

/-- omitting `sigma_k` is the same as passing the identity matrix -/
theorem getV_none_eq_identity (n : ℕ) : getV n (SigmaK.none : SigmaK K) = getV n (.mat (identRows n)) := by
  rw [getV_entry, getV_entry]
  apply vSpec_congr
  intro i j hi hj
  simp only [SigmaK.entry, identRows]
  rw [rows_entry n (fun i j => if i = j then (1 : K) else 0) i j hi hj]

/-- a variance vector is the same as passing the diagonal matrix -/
theorem getV_vec_eq_diag (n : ℕ) (v : List K) : getV n (.vec v) = getV n (.mat (diagRows n v)) := by
  rw [getV_entry, getV_entry]
  apply vSpec_congr
  intro i j hi hj
  simp only [SigmaK.entry, diagRows]
  rw [rows_entry n (fun i j => if i = j then v.getD i 0 else 0) i j hi hj]

/-- `V` is symmetric when the pattern covariance is -/
theorem getV_symm (s : ℕ → ℕ → K) (hs : ∀ i j, s i j = s j i) (p q : ℕ × ℕ) :
    xiSpec s p q * xiSpec s p q = xiSpec s q p * xiSpec s q p := by
  have : xiSpec s p q = xiSpec s q p := by
    unfold xiSpec
    rw [hs q.1 p.1, hs q.1 p.2, hs q.2 p.1, hs q.2 p.2]
    ring
  rw [this]

/-- a condition permutation `π` applied to the pattern covariance conjugates `V`: the entry
    at pairs `(p, q)` becomes the entry at `(π p, π q)`; and `V` does not depend on the
    orientation of a pair, so this is a permutation of `pairs n`. -/
theorem vSpec_cond_perm (s : ℕ → ℕ → K) (π : ℕ → ℕ) (p q : ℕ × ℕ) :
    xiSpec (fun i j => s (π i) (π j)) p q = xiSpec s (π p.1, π p.2) (π q.1, π q.2) ∧
    xiSpec s (p.2, p.1) q * xiSpec s (p.2, p.1) q = xiSpec s p q * xiSpec s p q ∧
    xiSpec s p (q.2, q.1) * xiSpec s p (q.2, q.1) = xiSpec s p q * xiSpec s p q := by
  refine ⟨rfl, ?_, ?_⟩ <;> unfold xiSpec <;> ring

end getv

example : getV 3 (SigmaK.none : SigmaK ℚ) = [[4, 1, 1], [1, 4, 1], [1, 1, 4]] := by decide +kernel

/-! ## 6. whitened cosine / correlation -/

/-- the four inner products of the coded whitened cosine as values of the quadratic form -/
theorem wcos_forms {V : List (List ℝ)} {m : ℕ} (hV : SymPosDef V m) (r1 r2 s1 s2 : List ℝ)
    (l1 : s1.length = m) (l2 : s2.length = m) (e1 : matVec V s1 = r1) (e2 : matVec V s2 = r2) :
    dot r1 s2 = Q V m (fun i => s1.getD i 0) (fun i => s2.getD i 0) ∧
    dot r2 s1 = Q V m (fun i => s1.getD i 0) (fun i => s2.getD i 0) ∧
    dot r1 s1 = Q V m (fun i => s1.getD i 0) (fun i => s1.getD i 0) ∧
    dot r2 s2 = Q V m (fun i => s2.getD i 0) (fun i => s2.getD i 0) := by
  subst e1 e2
  refine ⟨?_, ?_, ?_, ?_⟩
  · rw [dot_comm, dot_matVec hV.rows hV.cols s2 s1 l2 l1, Q_symm hV.symm]
  · rw [dot_comm, dot_matVec hV.rows hV.cols s1 s2 l1 l2]
  · rw [dot_comm, dot_matVec hV.rows hV.cols s1 s1 l1 l1]
  · rw [dot_comm, dot_matVec hV.rows hV.cols s2 s2 l2 l2]

theorem wcosFrom_eq (r1 r2 s1 s2 : List ℝ) :
    wcosFrom r1 r2 s1 s2 = if 0 < dot r1 s1 ∧ 0 < dot r2 s2
      then some (dot r1 s2 / Real.sqrt (dot r1 s1) / Real.sqrt (dot r2 s2)) else none := rfl

/-- symmetric in its two arguments, for every symmetric positive definite `V` and every
    pair of solutions `V s₁ = r₁`, `V s₂ = r₂` (whatever solver produced them) -/
theorem whitened_symm {V : List (List ℝ)} {m : ℕ} (hV : SymPosDef V m) (r1 r2 s1 s2 : List ℝ)
    (l1 : s1.length = m) (l2 : s2.length = m) (e1 : matVec V s1 = r1) (e2 : matVec V s2 = r2) :
    wcosFrom r1 r2 s1 s2 = wcosFrom r2 r1 s2 s1 := by
  obtain ⟨a, b, c, d⟩ := wcos_forms hV r1 r2 s1 s2 l1 l2 e1 e2
  rw [wcosFrom_eq, wcosFrom_eq, a, b]
  by_cases h : 0 < dot r1 s1 ∧ 0 < dot r2 s2
  · rw [if_pos h, if_pos h.symm, div_right_comm]
  · rw [if_neg h, if_neg (fun h' => h h'.symm)]

/-- within `[-1, 1]` (Cauchy–Schwarz for the form `sᵀVs`) -/
theorem whitened_abs_le_one {V : List (List ℝ)} {m : ℕ} (hV : SymPosDef V m)
    (r1 r2 s1 s2 : List ℝ) (l1 : s1.length = m) (l2 : s2.length = m)
    (e1 : matVec V s1 = r1) (e2 : matVec V s2 = r2) (v : ℝ)
    (hv : wcosFrom r1 r2 s1 s2 = some v) : |v| ≤ 1 := by
  obtain ⟨a, b, c, d⟩ := wcos_forms hV r1 r2 s1 s2 l1 l2 e1 e2
  rw [wcosFrom_eq] at hv
  split_ifs at hv with h
  cases hv
  obtain ⟨h1, h2⟩ := h
  have p1 := Real.sqrt_pos.mpr h1
  have p2 := Real.sqrt_pos.mpr h2
  rw [div_div, abs_div, abs_of_pos (mul_pos p1 p2), div_le_one (mul_pos p1 p2),
    ← Real.sqrt_mul h1.le]
  apply Real.abs_le_sqrt
  rw [sq, a, c, d]
  exact Q_sq_le hV _ _

/-- a non-zero RDM vector has whitened similarity 1 with itself -/
theorem whitened_self {V : List (List ℝ)} {m : ℕ} (hV : SymPosDef V m) (r s : List ℝ)
    (l : s.length = m) (e : matVec V s = r) (hr : ∃ c ∈ r, c ≠ 0) :
    wcosFrom r r s s = some 1 := by
  obtain ⟨-, -, c, -⟩ := wcos_forms hV r r s s l l e e
  have hs : ∃ i, i < m ∧ s.getD i 0 ≠ 0 := by
    by_contra hz
    push Not at hz
    obtain ⟨c', hc', hne⟩ := hr
    apply hne
    subst e
    obtain ⟨i, hi, rfl⟩ := List.getElem_of_mem hc'
    have hi' : i < V.length := by simpa [matVec] using hi
    have : (matVec V s)[i] = (matVec V s).getD i 0 := (List.getD_eq_getElem _ _ hi).symm
    rw [this, matVec_getD, dot_eq_sum_range' (V.getD i []) s m
      (by rw [List.getD_eq_getElem _ _ hi']; exact hV.cols _ (List.getElem_mem hi')) l]
    apply Finset.sum_eq_zero
    intro j hj
    rw [hz j (Finset.mem_range.mp hj), mul_zero]
  have hpos : 0 < dot r s := by rw [c]; exact hV.pos _ hs
  rw [wcosFrom_eq, if_pos ⟨hpos, hpos⟩]
  congr 1
  rw [div_div, Real.mul_self_sqrt hpos.le]
  exact div_self hpos.ne'

/-- a simultaneous permutation of the entries of both RDM vectors and of both solutions
    leaves the whitened similarity unchanged.  Together with `vSpec_cond_perm` (the
    permuted problem `V' s' = r'` is solved by the permuted solutions) this is the
    invariance under condition permutations; the list-level statement "`V'` is the
    conjugate of `V` by the induced permutation of `pairs n`" is proved entry-wise only. -/
theorem whitened_perm {L L' : List ((ℝ × ℝ) × (ℝ × ℝ))} (hp : L.Perm L') :
    wcosFrom (L.map (·.1.1)) (L.map (·.1.2)) (L.map (·.2.1)) (L.map (·.2.2)) =
    wcosFrom (L'.map (·.1.1)) (L'.map (·.1.2)) (L'.map (·.2.1)) (L'.map (·.2.2)) := by
  rw [wcosFrom_eq, wcosFrom_eq]
  simp only [dot_map_map]
  rw [(hp.map _).sum_eq, (hp.map (fun p => p.1.2 * p.2.2)).sum_eq,
    (hp.map (fun p => p.1.1 * p.2.2)).sum_eq]

/-- non-vacuity: for three conditions and `sigma_k = I`, `V = 3·I + J` is symmetric positive definite -/
example : SymPosDef [[4, 1, 1], [1, 4, 1], [1, 1, 4]] 3 := by
  refine ⟨rfl, by simp, ?_, ?_⟩
  · intro i j hi hj
    interval_cases i <;> interval_cases j <;> simp [ent]
  · intro f hf
    have hq : Q [[4, 1, 1], [1, 4, 1], [1, 1, 4]] 3 f f
        = 3 * (f 0 * f 0 + f 1 * f 1 + f 2 * f 2) + (f 0 + f 1 + f 2) * (f 0 + f 1 + f 2) := by
      simp [Q, ent, Finset.sum_range_succ]; ring
    rw [hq]
    obtain ⟨i, hi, hne⟩ := hf
    have h0 := mul_self_nonneg (f 0)
    have h1 := mul_self_nonneg (f 1)
    have h2 := mul_self_nonneg (f 2)
    have h3 := mul_self_nonneg (f 0 + f 1 + f 2)
    have : 0 < f i * f i := mul_self_pos.mpr hne
    interval_cases i <;> nlinarith

/-! ## 7. permuting the conditions of both RDMs together -/

/-- a permutation `π` of the `n` conditions, applied to two RDMs (symmetric functions of
    two conditions), permutes the entries of their condensed vectors simultaneously -/
theorem cond_perm_entries (n : ℕ) (π : ℕ → ℕ) (hπ : ((List.range n).map π).Perm (List.range n))
    (d1 d2 : ℕ → ℕ → ℝ) (h1 : ∀ i j, d1 i j = d1 j i) (h2 : ∀ i j, d2 i j = d2 j i) :
    ((matToVec n (fun i j => d1 (π i) (π j))).zip (matToVec n (fun i j => d2 (π i) (π j)))).Perm
      ((matToVec n d1).zip (matToVec n d2)) := by
  have hz : ∀ (e1 e2 : ℕ → ℕ → ℝ), (matToVec n e1).zip (matToVec n e2)
      = (pairs n).map (fun p => (e1 p.1 p.2, e2 p.1 p.2)) := by
    intro e1 e2
    simp [matToVec, List.zip_map']
  rw [hz, hz]
  have := pairsOf_perm_map_symm (fun a b => (d1 a b, d2 a b))
    (fun a b => by rw [h1 a b, h2 a b]) hπ
  rw [pairsOf_map, List.map_map] at this
  exact this

/-- hence every vector measure is unchanged when the conditions of both RDMs are permuted
    together -/
theorem measures_cond_perm (n : ℕ) (π : ℕ → ℕ) (hπ : ((List.range n).map π).Perm (List.range n))
    (d1 d2 : ℕ → ℕ → ℝ) (h1 : ∀ i j, d1 i j = d1 j i) (h2 : ∀ i j, d2 i j = d2 j i) :
    let x' := matToVec n (fun i j => d1 (π i) (π j))
    let y' := matToVec n (fun i j => d2 (π i) (π j))
    let x := matToVec n d1
    let y := matToVec n d2
    cosine x' y' = cosine x y ∧ corr x' y' = corr x y ∧ spearman x' y' = spearman x y ∧
    tauA x' y' = tauA x y ∧ tauB x' y' = tauB x y ∧ rhoA x' y' = rhoA x y := by
  intro x' y' x y
  have hp := cond_perm_entries n π hπ d1 d2 h1 h2
  have hl : x.length = y.length := by simp [x, y, matToVec]
  have hl' : x'.length = y'.length := by simp [x', y', matToVec]
  exact ⟨cosine_perm _ _ _ _ hl' hl hp, corr_perm _ _ _ _ hl' hl hp,
    spearman_perm _ _ _ _ hl' hl hp, tauA_perm _ _ _ _ hl' hl hp, tauB_perm _ _ _ _ hl' hl hp,
    rhoA_perm _ _ _ _ hl' hl hp⟩

-- non-vacuity: a cyclic shift of three conditions
example : ((List.range 3).map (fun i => (i + 1) % 3)).Perm (List.range 3) := by decide

/-! ## 8. double centring and the Bures measures -/

section kernel
variable {K : Type} [Field K]

theorem centreKernel_symm (n : ℕ) (g : ℕ → ℕ → K) (hg : ∀ i j, g i j = g j i) (i j : ℕ) :
    centreKernel n g i j = centreKernel n g j i := by
  unfold centreKernel
  rw [hg i j]
  ring

/-- every column (and, for symmetric `g`, every row) of the centred kernel sums to zero -/
theorem centreKernel_row_sum (n : ℕ) (hn : 0 < n) (g : ℕ → ℕ → K) [CharZero K] (j : ℕ) :
    ((List.range n).map (fun i => centreKernel n g i j)).sum = 0 := by
  have hn' : (n : K) ≠ 0 := by exact_mod_cast hn.ne'
  have e : ∀ i, centreKernel n g i j = g i j - colMean n g j - colMean n g i
      + ((List.range n).map (colMean n g)).sum / (n : K) := fun i => rfl
  simp only [e, sum_range_map]
  rw [Finset.sum_add_distrib, Finset.sum_sub_distrib, Finset.sum_sub_distrib]
  simp only [Finset.sum_const, Finset.card_range, nsmul_eq_mul]
  have h1 : (n : K) * colMean n g j = ∑ i ∈ Finset.range n, g i j := by
    unfold colMean; rw [sum_range_map]; field_simp
  rw [h1]
  field_simp
  ring

/-- double centring commutes with a permutation of the conditions -/
theorem centreKernel_perm (n : ℕ) (π : ℕ → ℕ) (hπ : ((List.range n).map π).Perm (List.range n))
    (g : ℕ → ℕ → K) (i j : ℕ) :
    centreKernel n (fun a b => g (π a) (π b)) i j = centreKernel n g (π i) (π j) := by
  have hsum : ∀ f : ℕ → K, ((List.range n).map (fun a => f (π a))).sum
      = ((List.range n).map f).sum := by
    intro f
    have := (hπ.map f).sum_eq
    rwa [List.map_map] at this
  have hcol : ∀ c, colMean n (fun a b => g (π a) (π b)) c = colMean n g (π c) := by
    intro c
    unfold colMean
    rw [hsum (fun a => g a (π c))]
  have hfun : (colMean n fun a b => g (π a) (π b)) = fun c => colMean n g (π c) := funext hcol
  unfold centreKernel
  simp only [hfun]
  rw [hsum (fun c => colMean n g c)]

end kernel

/-- symmetry of the Bures similarity, **partial**: reduces to the spectral fact
    `tr√(√A B √A) = tr√(√B A √B)` (taken as hypothesis, not derived from `eigh`) -/
theorem bures_symm_partial (eigh : List (List ℝ) → List ℝ × List (List ℝ)) (A B : List (List ℝ))
    (hfid : fidelity eigh A B = fidelity eigh B A) :
    buresSim eigh A B = buresSim eigh B A ∧ sqBuresMetric eigh A B = sqBuresMetric eigh B A := by
  unfold buresSim sqBuresMetric
  rw [hfid, mul_comm (trace A), add_comm (trace A)]
  exact ⟨rfl, rfl⟩

/-- self-similarity, **partial**: reduces to `tr√(√A A √A) = tr A` for PSD `A` -/
theorem bures_self_partial (eigh : List (List ℝ) → List ℝ × List (List ℝ)) (A : List (List ℝ))
    (hfid : fidelity eigh A A = trace A) (hpos : 0 < trace A) : buresSim eigh A A = 1 := by
  unfold buresSim
  simp only [hasSqrt_real]
  rw [hfid, Real.sqrt_mul_self hpos.le]
  exact div_self hpos.ne'

theorem bures_metric_self_partial (eigh : List (List ℝ) → List ℝ × List (List ℝ))
    (A : List (List ℝ)) (hfid : fidelity eigh A A = trace A) : sqBuresMetric eigh A A = 0 := by
  unfold sqBuresMetric
  rw [hfid]
  push_cast
  ring

/-- the full Bures claims (symmetric, in [0,1], 1 / 0 with itself, permutation invariant for
    Euclidean-embeddable RDMs) — only the reductions above and the kernel facts are proved. -/
def bures_full : Prop :=
  ∀ (eigh : List (List ℝ) → List ℝ × List (List ℝ)) (n : ℕ) (x y : List ℝ),
    buresSim eigh (kernelRows n x) (kernelRows n y) = buresSim eigh (kernelRows n y) (kernelRows n x)

/-! ## 9. the linear-CKA fast path (`sigma_k = None`) is the whitened cosine (round 2) -/

/-- **The code path that actually runs for `sigma_k=None`** (`_cov_weighting` + `_cosine`:
    centred kernel `−½HDH` stretched out, off-diagonals·√2, cosine) **equals the definition**
    `r₁ᵀV⁻¹r₂/√(r₁ᵀV⁻¹r₁·r₂ᵀV⁻¹r₂)` with `V = getV n none`, for every `n ≥ 1`, all RDM vectors
    of the right length and *any* solutions `V s₁ = r₁`, `V s₂ = r₂`: the three inner
    products coincide, hence the values; where a quadratic form is not positive the
    definition is undefined (`none`) and the fast path answers its guard value 0. -/
theorem whitened_fast_eq_V (n : ℕ) (hn : 0 < n) (r1 r2 s1 s2 : List ℝ)
    (h1 : r1.length = triLen n) (h2 : r2.length = triLen n)
    (e1 : matVec (getV n (SigmaK.none : SigmaK ℝ)) s1 = r1)
    (e2 : matVec (getV n (SigmaK.none : SigmaK ℝ)) s2 = r2) :
    dot r1 s2 = dot (covWeighting n r1) (covWeighting n r2) ∧
    dot r1 s1 = dot (covWeighting n r1) (covWeighting n r1) ∧
    dot r2 s2 = dot (covWeighting n r2) (covWeighting n r2) ∧
    (wcosFrom r1 r2 s1 s2 = some (whitenedCosFast n r1 r2) ∨
      (wcosFrom r1 r2 s1 s2 = none ∧ whitenedCosFast n r1 r2 = 0)) := by
  have a := dot_solution_eq_fast n hn r1 r2 s2 h1 h2 e2
  have b := dot_solution_eq_fast n hn r1 r1 s1 h1 h1 e1
  have c := dot_solution_eq_fast n hn r2 r2 s2 h2 h2 e2
  refine ⟨a, b, c, ?_⟩
  rw [wcosFrom_eq]
  unfold whitenedCosFast
  rw [cosine_eq, a, b, c]
  by_cases h : 0 < dot (covWeighting n r1) (covWeighting n r1) ∧
      0 < dot (covWeighting n r2) (covWeighting n r2)
  · left
    rw [if_pos h, if_pos ⟨Real.sqrt_pos.mpr h.1, Real.sqrt_pos.mpr h.2⟩]
  · right
    rw [if_neg h, if_neg (fun h' => h ⟨Real.sqrt_pos.mp h'.1, Real.sqrt_pos.mp h'.2⟩)]
    exact ⟨rfl, rfl⟩

/-- the same for the whitened correlation (`compare_correlation_cov_weighted` removes the
    mean of each vector and then takes the same path) -/
theorem whitened_corr_fast_eq_V (n : ℕ) (hn : 0 < n) (r1 r2 s1 s2 : List ℝ)
    (h1 : r1.length = triLen n) (h2 : r2.length = triLen n)
    (e1 : matVec (getV n (SigmaK.none : SigmaK ℝ)) s1 = center r1)
    (e2 : matVec (getV n (SigmaK.none : SigmaK ℝ)) s2 = center r2) :
    wcosFrom (center r1) (center r2) s1 s2 = some (whitenedCosFast n (center r1) (center r2)) ∨
      (wcosFrom (center r1) (center r2) s1 s2 = none ∧
        whitenedCosFast n (center r1) (center r2) = 0) :=
  (whitened_fast_eq_V n hn (center r1) (center r2) s1 s2 (by simpa [center] using h1)
    (by simpa [center] using h2) e1 e2).2.2.2

-- non-vacuity: n = 3, r = (1,2,3) is solved by s = (0, 1/3, 2/3) under V = [[4,1,1],[1,4,1],[1,1,4]]
example : matVec (getV 3 (SigmaK.none : SigmaK ℚ)) [0, 1/3, 2/3] = [1, 2, 3] := by decide +kernel

/-! ## 10. leaf-dependent forms and the argument checks (round 2) -/

/-- rho-a with the constant regenerated from `compare_rho_a`'s text is the modelled rho-a
    (so every rho-a theorem above speaks about the current source text) -/
theorem rhoA_coded_eq (x y : List ℝ) :
    rhoACoded x y = rhoA x y ∧
    rhoACoded x y = 12 / ((x.length : ℝ) ^ 3 - x.length) *
      dot (center (avgRank x)) (center (avgRank y)) :=
  ⟨rhoACoded_eq x y, (rhoACoded_eq x y).trans (rhoA_def x y)⟩

/-- the fast path with the grand mean exactly as `_cov_weighting` computes it
    (`np.sum(vector_w * 2) / (n_cond * n_cond)`, regenerated leaf) is the fast path with the
    textbook double centring — and therefore (`whitened_fast_eq_V`) the whitened cosine -/
theorem fast_coded_eq (n : ℕ) (r1 r2 : List ℝ) :
    whitenedCosFastCoded n r1 r2 = whitenedCosFast n r1 r2 ∧
    covWeightingCoded n r1 = covWeighting n r1 :=
  ⟨whitenedCosFastCoded_eq n r1 r2, covWeightingCoded_eq n r1⟩

/-- `compare` rejects exactly unknown method names and stacks of different vector length -/
theorem accepts_iff (method : String) (lx ly : ℕ) :
    accepts method lx ly = true ↔ method ∈ methodNames ∧ lx = ly := by
  simp [accepts]

example : accepts "tau-a" 6 6 = true ∧ accepts "tau-c" 6 6 = false ∧ accepts "corr" 6 3 = false := by
  decide

/-! ## 11. `V` is positive definite when `sigma_k` is omitted (round 2) -/

/-- the `SymPosDef` hypothesis of section 6 is a theorem for the default `sigma_k = None`,
    for every number of conditions -/
theorem getV_none_posDef (n : ℕ) : SymPosDef (getV n (SigmaK.none : SigmaK ℝ)) (triLen n) :=
  symPosDef_getV_none n

/-- hence, without any hypothesis on `V`: the default whitened cosine / correlation is
    symmetric, within [-1, 1] and 1 for a non-zero RDM with itself, whatever solver produced
    the solutions -/
theorem whitened_none_props (n : ℕ) (r1 r2 s1 s2 : List ℝ)
    (l1 : s1.length = triLen n) (l2 : s2.length = triLen n)
    (e1 : matVec (getV n (SigmaK.none : SigmaK ℝ)) s1 = r1)
    (e2 : matVec (getV n (SigmaK.none : SigmaK ℝ)) s2 = r2) :
    wcosFrom r1 r2 s1 s2 = wcosFrom r2 r1 s2 s1 ∧
    (∀ v, wcosFrom r1 r2 s1 s2 = some v → |v| ≤ 1) ∧
    ((∃ c ∈ r1, c ≠ 0) → wcosFrom r1 r1 s1 s1 = some 1) :=
  ⟨whitened_symm (getV_none_posDef n) r1 r2 s1 s2 l1 l2 e1 e2,
   fun v hv => whitened_abs_le_one (getV_none_posDef n) r1 r2 s1 s2 l1 l2 e1 e2 v hv,
   fun h => whitened_self (getV_none_posDef n) r1 s1 l1 e1 h⟩

/-! # Round 3 -/

/-! ## 12. rho-a lies in [-1, 1] (closes `rhoA_range_partial`) -/

/-- the centred sum of squares of tie-averaged ranks is at most `(n³ − n)/12`, its value for
    the untied ranks `1..n` — for every vector, with arbitrary ties -/
theorem rank_sum_sq_le (x : List ℝ) :
    dot (center (avgRank x)) (center (avgRank x)) ≤ ((x.length : ℝ) ^ 3 - x.length) / 12 :=
  rankSS_le x

/-- **rho-a lies in [-1, 1]** for all vectors of equal length (Cauchy–Schwarz and
    `rank_sum_sq_le`) -/
theorem rhoA_range (x y : List ℝ) (h : x.length = y.length) : |rhoA x y| ≤ 1 := by
  by_cases hn : 2 ≤ x.length
  · have hp := rhoA_range_partial x y hn
    have hn' : (2 : ℝ) ≤ (x.length : ℝ) := by exact_mod_cast hn
    have hpos : 0 < (x.length : ℝ) ^ 3 - x.length := by nlinarith [sq_nonneg ((x.length : ℝ) - 1)]
    set Bd : ℝ := ((x.length : ℝ) ^ 3 - x.length) / 12 with hB
    have hBpos : 0 < Bd := by rw [hB]; positivity
    have sx := rank_sum_sq_le x
    have sy := rank_sum_sq_le y
    rw [← h] at sy
    have hsq : Real.sqrt (dot (center (avgRank x)) (center (avgRank x)) *
        dot (center (avgRank y)) (center (avgRank y))) ≤ Bd := by
      rw [show Bd = Real.sqrt (Bd * Bd) from (Real.sqrt_mul_self hBpos.le).symm]
      apply Real.sqrt_le_sqrt
      exact mul_le_mul sx sy (dot_self_nonneg _) hBpos.le
    calc |rhoA x y| ≤ 12 / ((x.length : ℝ) ^ 3 - x.length) * Real.sqrt _ := hp
      _ ≤ 12 / ((x.length : ℝ) ^ 3 - x.length) * Bd :=
          mul_le_mul_of_nonneg_left hsq (div_pos (by norm_num) hpos).le
      _ = 1 := by
          rw [hB]
          generalize ((x.length : ℝ) ^ 3 - x.length) = X at hpos ⊢
          have hX : X ≠ 0 := hpos.ne'
          field_simp
  · have h01 : x.length = 0 ∨ x.length = 1 := by omega
    have hz : (x.length : ℝ) ^ 3 - x.length = 0 := by
      rcases h01 with e | e <;> rw [e] <;> norm_num
    rw [rhoA_def, hz, div_zero, zero_mul, abs_zero]
    exact zero_le_one

/-- the statement kept as a `def` since round 1 is now a theorem -/
theorem rhoA_range_full_holds : rhoA_range_full := fun x y h => rhoA_range x y h

example : |rhoA ([1, 1, 2, 5] : List ℝ) [3, 0, 0, 0]| ≤ 1 := rhoA_range _ _ rfl

/-! ## 13. `V` is positive definite for every variance vector -/

/-- the `SymPosDef` hypothesis of section 6 is a theorem when `sigma_k` is a vector of positive
    variances, for every number of conditions -/
theorem getV_vec_posDef (n : ℕ) (v : List ℝ) (hv : ∀ k, k < n → 0 < v.getD k 0) :
    SymPosDef (getV n (SigmaK.vec v)) (triLen n) := symPosDef_getV_vec n v hv

/-- hence, with a variance vector and no hypothesis on `V`: symmetric, within [-1, 1], 1 with
    itself, whatever solver produced the solutions -/
theorem whitened_vec_props (n : ℕ) (v : List ℝ) (hv : ∀ k, k < n → 0 < v.getD k 0)
    (r1 r2 s1 s2 : List ℝ) (l1 : s1.length = triLen n) (l2 : s2.length = triLen n)
    (e1 : matVec (getV n (SigmaK.vec v)) s1 = r1) (e2 : matVec (getV n (SigmaK.vec v)) s2 = r2) :
    wcosFrom r1 r2 s1 s2 = wcosFrom r2 r1 s2 s1 ∧
    (∀ w, wcosFrom r1 r2 s1 s2 = some w → |w| ≤ 1) ∧
    ((∃ c ∈ r1, c ≠ 0) → wcosFrom r1 r1 s1 s1 = some 1) :=
  ⟨whitened_symm (getV_vec_posDef n v hv) r1 r2 s1 s2 l1 l2 e1 e2,
   fun w hw => whitened_abs_le_one (getV_vec_posDef n v hv) r1 r2 s1 s2 l1 l2 e1 e2 w hw,
   fun h => whitened_self (getV_vec_posDef n v hv) r1 s1 l1 e1 h⟩

-- non-vacuity: three conditions with variances 1/2, 1, 3
example : ∀ k, k < 3 → (0 : ℝ) < ([1 / 2, 1, 3] : List ℝ).getD k 0 := by
  intro k hk; interval_cases k <;> norm_num

/-! ## 14. the two `_sort_and_rank` passes of `_tau_a` and its tie counts -/

section passes
variable {K : Type} [Field K] [LinearOrder K] [IsStrictOrderedRing K]

/-- the running count of changes of a sorted vector is an order-equivalent relabelling:
    `a < b ↔ rank a < rank b`, and the ranks never decrease -/
theorem denseRanks_order (s : List K) (hs : s.Pairwise (· ≤ ·)) :
    (denseRanks s).length = s.length ∧
    (s.zip (denseRanks s)).Pairwise (fun t u => (t.1 < u.1 ↔ t.2 < u.2) ∧ t.2 ≤ u.2) := by
  obtain ⟨h1, h2⟩ := denseRanks_spec s hs
  exact ⟨h1, h2.imp (fun {t u} h => ⟨h.1, not_lt.mp h.2.2⟩)⟩

example : denseRanks ([2, 2, 5, 7, 7] : List ℚ) = [1, 1, 2, 3, 3] := by decide +kernel

/-- one `_sort_and_rank(v1, v2)` pass keeps all five pair counts and returns the entries sorted
    by the (ranked) second vector -/
theorem sortAndRank_keeps_counts (v1 v2 : List K) (h : v1.length = v2.length) :
    counts5 ((sortAndRank v1 v2).1.zip (sortAndRank v1 v2).2) = counts5 (v1.zip v2) ∧
    ((sortAndRank v1 v2).1.zip (sortAndRank v1 v2).2).Pairwise (fun p q => p.2 ≤ q.2) :=
  ⟨(sortAndRank_spec v1 v2 h).2.2.1, (sortAndRank_spec v1 v2 h).2.2.2.1⟩

/-- **after the two passes** the rank vectors have equal length, are sorted by x and among equal
    x by y (what `_kendall_dis` requires), and have the concordant / discordant / tie counts of
    the input -/
theorem tauA_passes_sorted_counts (x y : List K) (h : x.length = y.length) :
    (tauAPasses x y).1.length = (tauAPasses x y).2.length ∧
    ((tauAPasses x y).1.zip (tauAPasses x y).2).Pairwise lexLE ∧
    counts5 ((tauAPasses x y).1.zip (tauAPasses x y).2)
      = (nCon x y, nDis x y, nTieX x y, nTieY x y, nTieXY x y) :=
  tauAPasses_spec x y h

-- (concrete values of the passes, e.g. `tauAPasses [3,1,1,2] [5,5,4,9] = ([1,1,2,3], [1,2,3,2])`, are
-- compared with the real `_sort_and_rank` by the correspondence, kind `passes`)
example : ([3, 1, 1, 2] : List ℚ).length = ([5, 5, 4, 9] : List ℚ).length := rfl

/-- on lexicographically sorted rank pairs `(cnt·(cnt−1)//2).sum()` over the runs of equal
    adjacent pairs is the number of jointly tied pairs (leaf `runTie`) -/
theorem runTies_counts_joint_ties (l : List (ℕ × ℕ)) (hl : l.Pairwise lexLE) :
    runTies l = countPairs tieXYH l := runTies_eq l hl

example : [((1 : ℕ), (1 : ℕ)), (1, 1), (1, 2), (2, 2), (2, 2), (2, 2)].Pairwise lexLE := by
  unfold lexLE; decide

/-- `_count_rank_tie`: the bincount formula is the number of tied pairs of a rank vector
    (leaves `rankTie`, `rankTieKeep`) -/
theorem bincountTies_counts_ties (r : List ℕ) :
    bincountTies r = countPairs (fun a b => tiedB a b) r := bincountTies_eq r

/-- **`_tau_a` as coded** — two sort-and-rank passes, run-length joint ties, bincount ties, the
    regenerated arithmetic and clamp — **equals the definition** `(con − dis)/C(n,2)`, for every
    `_kendall_dis` that returns the number of discordant pairs of lexicographically sorted
    rank vectors (its documented contract) -/
theorem tauA_twoPass_eq_spec (kdis : List ℕ → List ℕ → ℕ)
    (hk : ∀ a b : List ℕ, a.length = b.length → (a.zip b).Pairwise lexLE →
      kdis a b = countPairs discordantH (a.zip b))
    (x y : List K) (h : x.length = y.length) :
    tauATwoPass kdis x y = tauASpec x y ∧ tauATwoPass kdis x y = tauA x y := by
  have e := tauATwoPass_eq_tauA kdis hk x y h
  exact ⟨e.trans (tauA_algo_eq_spec x y h), e⟩

-- non-vacuity: the reference counter used by the driver satisfies the contract
example : ∀ a b : List ℕ, a.length = b.length → (a.zip b).Pairwise lexLE →
    kendallDisRef a b = countPairs discordantH (a.zip b) := fun _ _ _ _ => rfl

end passes

/-! ## 15. variants that call the regenerated leaves equal the model -/

/-- `_cosine` with the guard `norm > 0` and the two divisions taken from the source text -/
theorem cosine_coded_eq (x y : List ℝ) :
    cosineCoded x y = cosine x y ∧ corrCoded x y = corr x y ∧ spearmanCoded x y = spearman x y :=
  ⟨cosineCoded_eq x y, corrCoded_eq x y, spearmanCoded_eq x y⟩

/-- `_get_v` with the `sigma_k is None / sigma_k.ndim == 1 / else` dispatch from the text -/
theorem getV_coded_eq (n : ℕ) (s : SigmaK ℝ) : getVCoded n s = getV n s ∧ getVCoded n s = vSpec n s.entry :=
  ⟨getVCoded_eq n s, (getVCoded_eq n s).trans (getV_entry n s)⟩

/-- `_cosine_cov_weighted` solves with `V` exactly when a `sigma_k` is given (vector or matrix)
    and takes the linear-CKA path exactly when it is omitted -/
theorem cov_route_iff (s : SigmaK ℝ) : covRouteOf s = 1 ↔ s.ndim ≠ 0 := by
  cases s <;> simp [covRouteOf, Rsa.Gen.C03.covRouteNone, Rsa.Gen.C03.covRoute, SigmaK.ndim]

/-- the number of conditions is recovered from the vector length (both helper functions) -/
theorem nCond_recovery (n : ℕ) (hn : 2 ≤ n) :
    Rsa.Gen.C03.nFromReduced (triLen n) = n ∧ Rsa.Gen.C03.nFromLength (triLen n) = n :=
  ⟨nFromReduced_triLen n hn, nFromLength_triLen n hn⟩

/-- the linear-CKA path with *every* scalar step from `_cov_weighting`'s text
    (`-0.5·d`, `(row+column sums)/n`, `w − (m_i+m_j) + mm`, `Σ 2w/n²`) is the double centring of
    `−D/2`, hence (section 9) the whitened cosine -/
theorem cka_steps_coded_eq (n : ℕ) (r : List ℝ) :
    ckaKernel n r = centreKernel n (halfNeg n r) ∧ covWeighting3 n r = covWeighting n r :=
  ⟨ckaKernel_eq n r, covWeighting3_eq n r⟩

/-- the whole dispatch of `compare(.., 'cosine_cov', sigma_k)`: `n_cond` from the length, route and
    form of `V` from the text -/
theorem whitened_dispatch_eq (n : ℕ) (hn : 2 ≤ n) (s : SigmaK ℝ) (r1 r2 : List ℝ)
    (h1 : r1.length = triLen n) :
    whitenedCosDispatch s r1 r2 =
      if s.ndim = 0 then some (whitenedCosFast n r1 r2) else whitenedCos (getV n s) r1 r2 := by
  unfold whitenedCosDispatch
  rw [h1, nFromReduced_triLen n hn, nFromLength_triLen n hn, getVCoded_eq, cosineCoded_eq,
    covWeighting3_eq, covWeighting3_eq]
  cases s <;> simp [covRouteOf, Rsa.Gen.C03.covRouteNone, Rsa.Gen.C03.covRoute, SigmaK.ndim,
    whitenedCosFast]

/-- the Bures expressions with clamp, denominator, ratio and kernel steps from the text -/
theorem bures_coded_eq (eigh : List (List ℝ) → List ℝ × List (List ℝ)) (A B : List (List ℝ))
    (n : ℕ) (r : List ℝ) :
    buresSimCoded eigh A B = buresSim eigh A B ∧
    sqBuresMetricCoded eigh A B = sqBuresMetric eigh A B ∧
    buresKernelRows n r = kernelRows n r :=
  ⟨buresSimCoded_eq eigh A B, sqBuresMetricCoded_eq eigh A B, buresKernelRows_eq n r⟩

/-! ## 16. `compare_neg_riemannian_distance`: the parts that are logic -/

/-- `sigma_k_hat = P Σ Pᵀ` with `P = [−1 | I]` is the covariance of the differences to
    condition 0; for `sigma_k = None` it is `I + 11ᵀ` -/
theorem sigmaHat_entry (n : ℕ) (m : List (List ℝ)) (a b : ℕ) (ha : a + 1 < n) (hb : b + 1 < n) :
    ((sigmaHat n (SigmaK.mat m)).getD a []).getD b 0
      = (SigmaK.mat m).entry (a + 1) (b + 1) - (SigmaK.mat m).entry (a + 1) 0
        - (SigmaK.mat m).entry 0 (b + 1) + (SigmaK.mat m).entry 0 0 ∧
    ((sigmaHat n (SigmaK.none : SigmaK ℝ)).getD a []).getD b 0 = (if a = b then 1 else 0) + 1 := by
  have ha' : a < n - 1 := by omega
  have hb' : b < n - 1 := by omega
  constructor
  · unfold sigmaHat
    rw [rows_entry (n - 1) _ a b ha' hb']
    show xi n (SigmaK.mat m) (a + 1, 0) (b + 1, 0) = _
    rw [xi_eq_spec n (SigmaK.mat m) _ _ ⟨ha, by omega⟩ ⟨hb, by omega⟩]
    rfl
  · unfold sigmaHat
    rw [rows_entry (n - 1) _ a b ha' hb']
    show xi n (SigmaK.none : SigmaK ℝ) (a + 1, 0) (b + 1, 0) = _
    rw [xi_eq_spec n (SigmaK.none : SigmaK ℝ) _ _ ⟨ha, by omega⟩ ⟨hb, by omega⟩]
    simp only [xiSpec, SigmaK.entry]
    by_cases h : a = b <;> simp [h]

/-- the Gram transform `vector @ T.T` (coefficients `0.5`, `−0.5` and the sign flip of `pairs`
    regenerated from the text): the entry for conditions `i, j ≠ 0` is `(d_0i + d_0j − d_ij)/2` -/
theorem riemGram_value (di dj dij f : ℝ) :
    Rsa.Gen.C03.riemGram di dj dij = (di + dj - dij) / 2 ∧ Rsa.Gen.C03.riemNeg f = -f :=
  ⟨riemGram_eq di dj dij, riemNeg_eq f⟩

/-- what is not proved at list level: that `riemGRows` (diag + squareform of `vector @ T.T`) equals
    `riemGSpec` entry by entry (index arithmetic of the condensed layout); checked exactly by the
    correspondence (`kind: riem`) -/
def riemG_full : Prop := ∀ (n : ℕ) (r : List ℝ), r.length = triLen n → riemGRows n r = riemGSpec n r

example : riemGRows 4 ([1, 2, 3, 4, 5, 6] : List ℚ) = riemGSpec 4 [1, 2, 3, 4, 5, 6] := by decide +kernel

noncomputable local instance hasLogRealC03 : HasLog ℝ := ⟨Real.log⟩

/-- `_riemannian_distance` with the eigen-solver and the Nelder–Mead search as parameters: the
    result is minus the objective at the returned point, never positive, and not below minus the
    objective at the start `(0, 0)` for every search that does not return a worse point -/
theorem negRiem_contract (geig : ℝ × ℝ → List ℝ)
    (search : (ℝ × ℝ → ℝ) → ℝ × ℝ → ℝ × ℝ) :
    negRiem geig search = -(riemObjective geig (search (riemObjective geig) (0, 0))) ∧
    negRiem geig search ≤ 0 ∧
    (riemObjective geig (search (riemObjective geig) (0, 0)) ≤ riemObjective geig (0, 0) →
      -(riemObjective geig (0, 0)) ≤ negRiem geig search) := by
  have e : negRiem geig search = -(riemObjective geig (search (riemObjective geig) (0, 0))) :=
    riemNeg_eq _
  have hnn : ∀ t, 0 ≤ riemObjective geig t := fun t => Real.sqrt_nonneg _
  refine ⟨e, by rw [e]; linarith [hnn (search (riemObjective geig) (0, 0))], fun h => by rw [e]; linarith⟩

/-! ## 17. Bures under routine contracts (replaces the two assumed trace identities) -/

section bures
variable {n : ℕ} {eigh : List (List ℝ) → List ℝ × List (List ℝ)}

/-- **symmetric**: only needs that `Asq`, `Bsq` square back to `A`, `B` and that the eigenvalue
    routine returns the spectrum — no trace identity assumed -/
theorem bures_symm (he : EigContract n eigh) {A B : List (List ℝ)}
    (hA : SqrtContract n eigh A) (hB : SqrtContract n eigh B) :
    buresSim eigh A B = buresSim eigh B A ∧ sqBuresMetric eigh A B = sqBuresMetric eigh B A := by
  apply bures_symm_partial
  rw [fidelity_bridge he hA hB.1, fidelity_bridge he hB hA.1]
  exact Rsa.Bures.fidelity_symm _ _ _ _ hA.2.2 hB.2.2

/-- **similarity 1 / squared metric 0 with itself** for a positive semidefinite kernel with
    positive trace -/
theorem bures_self (he : EigContract n eigh) {A : List (List ℝ)} (hA : SqrtContract n eigh A)
    (hpsd : (toM n A).PosSemidef) (hpos : 0 < Compare.trace A) :
    buresSim eigh A A = 1 ∧ sqBuresMetric eigh A A = 0 := by
  have hf : fidelity eigh A A = Compare.trace A := by
    rw [fidelity_bridge he hA hA.1, Rsa.Bures.fidelity_self _ _ hA.2.2 hpsd, trace_toM hA.1]
  exact ⟨bures_self_partial eigh A hf hpos, bures_metric_self_partial eigh A hf⟩

/-- **unchanged when the conditions of both kernels are permuted together** -/
theorem bures_cond_perm (he : EigContract n eigh) {A B A' B' : List (List ℝ)}
    (hA : SqrtContract n eigh A) (hB : IsSq n B) (hA' : SqrtContract n eigh A') (hB' : IsSq n B')
    (π : Equiv.Perm (Fin n))
    (eA : ∀ i j : Fin n, ent A' i j = ent A (π i) (π j))
    (eB : ∀ i j : Fin n, ent B' i j = ent B (π i) (π j)) :
    buresSim eigh A' B' = buresSim eigh A B ∧ sqBuresMetric eigh A' B' = sqBuresMetric eigh A B := by
  have mA : toM n A' = (toM n A).submatrix π π := by funext i j; exact eA i j
  have mB : toM n B' = (toM n B).submatrix π π := by funext i j; exact eB i j
  have hf : fidelity eigh A' B' = fidelity eigh A B := by
    rw [fidelity_bridge he hA' hB', fidelity_bridge he hA hB, mB]
    exact Rsa.Bures.fidelity_perm _ _ _ _ π hA.2.2 (mA ▸ hA'.2.2)
  have tA : Compare.trace A' = Compare.trace A := by
    rw [trace_toM hA'.1, trace_toM hA.1, mA, Rsa.Bures.trace_perm]
  have tB : Compare.trace B' = Compare.trace B := by
    rw [trace_toM hB', trace_toM hB, mB, Rsa.Bures.trace_perm]
  unfold buresSim sqBuresMetric
  rw [hf, tA, tB]
  exact ⟨rfl, rfl⟩

/-- the similarity is never negative -/
theorem bures_nonneg (he : EigContract n eigh) {A B : List (List ℝ)}
    (hA : SqrtContract n eigh A) (hB : IsSq n B) : 0 ≤ buresSim eigh A B := by
  unfold buresSim
  rw [fidelity_bridge he hA hB]
  exact div_nonneg (Rsa.Bures.trSqrtSpec_nonneg _) (Real.sqrt_nonneg _)

/-- still open: the upper bound `buresSim ≤ 1` (`tr√(√A B √A) ≤ √(tr A · tr B)`, a trace-norm
    Hölder inequality) — correspondence + oracle only -/
def bures_upper_full : Prop :=
  ∀ (n : ℕ) (eigh : List (List ℝ) → List ℝ × List (List ℝ)) (A B : List (List ℝ)),
    EigContract n eigh → SqrtContract n eigh A → SqrtContract n eigh B →
    (toM n A).PosSemidef → (toM n B).PosSemidef → buresSim eigh A B ≤ 1

end bures

-- non-vacuity of the square-root contract at the matrix level
example : Rsa.Bures.IsSqrtOf (Matrix.diagonal ![(2 : ℝ), 3]) (Matrix.diagonal ![(4 : ℝ), 9]) := by
  unfold Rsa.Bures.IsSqrtOf
  rw [Matrix.diagonal_mul_diagonal]
  congr 1
  funext i
  fin_cases i <;> norm_num

/-! ## 18. `V` is positive semidefinite for every Gram pattern covariance `sigma_k = A Aᵀ` -/

/-- for `sigma_k = A Aᵀ` (`A` any real `n × M` matrix — every covariance matrix has this form) the
    covariance `V` of the RDM entries is symmetric positive semidefinite, for every number of
    conditions: `fᵀVf = Σ_{m,m'} (Σ_p f_p u_p(m) u_p(m'))²` with `u_p = Aᵀ(e_i − e_j)` -/
theorem getV_gram_psd (n M : ℕ) (a : ℕ → ℕ → ℝ) (m : List (List ℝ))
    (hm : ∀ i j, i < n → j < n → (SigmaK.mat m).entry i j = gramOf M a i j) :
    SymPosSemidef (getV n (SigmaK.mat m)) (triLen n) := by
  rw [getV_entry, vSpec_congr n _ _ hm]
  exact symPosSemidef_vSpec_gram n M a

/-- hence for every symmetric positive *semi*definite `V` (in particular for every Gram
    `sigma_k`, `getV_gram_psd`) the whitened similarity is symmetric and within [-1, 1] — the
    strict definiteness hypothesis of section 6 is only needed for "1 with itself" -/
theorem whitened_psd_props {V : List (List ℝ)} {m : ℕ} (hV : SymPosSemidef V m)
    (r1 r2 s1 s2 : List ℝ) (l1 : s1.length = m) (l2 : s2.length = m)
    (e1 : matVec V s1 = r1) (e2 : matVec V s2 = r2) :
    wcosFrom r1 r2 s1 s2 = wcosFrom r2 r1 s2 s1 ∧
    (∀ v, wcosFrom r1 r2 s1 s2 = some v → |v| ≤ 1) := by
  have a : dot r1 s2 = Q V m (fun i => s1.getD i 0) (fun i => s2.getD i 0) := by
    subst e1; rw [dot_comm, dot_matVec hV.rows hV.cols s2 s1 l2 l1, Q_symm hV.symm]
  have b : dot r2 s1 = Q V m (fun i => s1.getD i 0) (fun i => s2.getD i 0) := by
    subst e2; rw [dot_comm, dot_matVec hV.rows hV.cols s1 s2 l1 l2]
  have c : dot r1 s1 = Q V m (fun i => s1.getD i 0) (fun i => s1.getD i 0) := by
    subst e1; rw [dot_comm, dot_matVec hV.rows hV.cols s1 s1 l1 l1]
  have d : dot r2 s2 = Q V m (fun i => s2.getD i 0) (fun i => s2.getD i 0) := by
    subst e2; rw [dot_comm, dot_matVec hV.rows hV.cols s2 s2 l2 l2]
  constructor
  · rw [wcosFrom_eq, wcosFrom_eq, a, b]
    by_cases h : 0 < dot r1 s1 ∧ 0 < dot r2 s2
    · rw [if_pos h, if_pos h.symm, div_right_comm]
    · rw [if_neg h, if_neg (fun h' => h h'.symm)]
  · intro v hv
    rw [wcosFrom_eq] at hv
    split_ifs at hv with h
    cases hv
    obtain ⟨h1, h2⟩ := h
    have p1 := Real.sqrt_pos.mpr h1
    have p2 := Real.sqrt_pos.mpr h2
    rw [div_div, abs_div, abs_of_pos (mul_pos p1 p2), div_le_one (mul_pos p1 p2),
      ← Real.sqrt_mul h1.le]
    apply Real.abs_le_sqrt
    rw [sq, a, c, d]
    exact Q_sq_le_psd hV _ _

-- non-vacuity: the identity covariance of two conditions is the Gram matrix of `A = I`
example : ∀ i j, i < 2 → j < 2 → (SigmaK.mat [[(1 : ℝ), 0], [0, 1]]).entry i j
    = gramOf 2 (fun i m => if i = m then 1 else 0) i j := by
  intro i j hi hj
  interval_cases i <;> interval_cases j <;> simp [SigmaK.entry, gramOf, Finset.sum_range_succ]

/-! ## 12. Reuse sessions (round 4): the same stacks handed to several successive `compare()` calls

`Rsa.Compare.callStep` models one call on a tiny heap (cells = arrays): `_parse_input_rdms` either
copies or hands the caller's array on, the pre-processing (`v - mean`) either rebinds or writes in
place.  Both flags are regenerated from the source text (`Rsa.Gen.C03.parseAlias`,
`Rsa.Gen.C03.inplaceWrites`). -/

/-- one call that copies on parsing or never writes in place: every array that existed before the
    call is bit-identical afterwards, and the result is the measure of the *original* stacks -/
theorem session_call_pure {β γ : Type} (c : Call β γ) (hs : c.safe = true) (st : Store β) (a b : Nat)
    (ha : a < st.length) (hb : b < st.length) :
    (∀ i, i < st.length → (callStep c st a b).1.getD i [] = st.getD i []) ∧
    (callStep c st a b).2 = compareAll c.f ((st.getD a []).map c.pre) ((st.getD b []).map c.pre) :=
  ⟨(callStep_safe c hs st a b ha hb).1.2, (callStep_safe c hs st a b ha hb).2⟩

/-- every session of such calls, of any length, in any order of methods, on the same two cells (also
    `a = b`: an object compared with itself): the k-th result is the k-th measure of the original
    stacks and the caller's arrays are unchanged at the end -/
theorem session_results_eq_definition {β γ : Type} (cs : List (Call β γ))
    (hs : ∀ c ∈ cs, c.safe = true) (st : Store β) (a b : Nat) (ha : a < st.length) (hb : b < st.length) :
    (sessionRun cs st a b).2 = sessionSpec cs (st.getD a []) (st.getD b []) ∧
    (∀ i, i < st.length → (sessionRun cs st a b).1.getD i [] = st.getD i []) :=
  ⟨(sessionRun_safe cs hs st a b ha hb).2, (sessionRun_safe cs hs st a b ha hb).1.2⟩

set_option linter.unusedTactic false in
set_option linter.unreachableTactic false in
/-- the calls *as coded* are safe: the parser of the current source text returns fresh copies on
    every return path (leaf `parseAlias` = 0) — or, should a later revision hand the caller's arrays
    on, no `compare_*` function and no helper writes in place into them (leaf `inplaceWrites` = 0 for
    every method).  Either fact alone suffices; the proof tries both, so an edit that breaks only one
    of them (behaviour-preserving) keeps the theorem, the two together (C03-8) break it. -/
theorem coded_call_safe {β γ : Type} (m : String) (n : Nat) (pre : β → β) (f : β → β → γ) :
    (codedCall m n pre f).safe = true := by
  simp only [codedCall, Call.safe]
  first
  | (simp [Rsa.Gen.C03.parseAlias]; done)
  | (have h : Rsa.Gen.C03.inplaceWrites (methodCode m) = 0 := by
      unfold Rsa.Gen.C03.inplaceWrites
      repeat' split
      all_goals rfl
     simp [h])

/-- `compare()` as coded, used repeatedly on the same stacks: for every list of (method, pre, f)
    the results are those of the definition on the original stacks and the inputs are untouched -/
theorem compare_session_pure {β γ : Type} (ms : List (String × (β → β) × (β → β → γ))) (n : Nat)
    (st : Store β) (a b : Nat) (ha : a < st.length) (hb : b < st.length) :
    let cs := ms.map (fun m => codedCall m.1 n m.2.1 m.2.2)
    (sessionRun cs st a b).2 = ms.map (fun m => compareAll m.2.2 ((st.getD a []).map m.2.1)
        ((st.getD b []).map m.2.1)) ∧
    (∀ i, i < st.length → (sessionRun cs st a b).1.getD i [] = st.getD i []) := by
  intro cs
  have hs : ∀ c ∈ cs, c.safe = true := by
    intro c hc
    simp only [cs, List.mem_map] at hc
    obtain ⟨m, _, rfl⟩ := hc
    exact coded_call_safe _ _ _ _
  obtain ⟨R, P⟩ := session_results_eq_definition cs hs st a b ha hb
  refine ⟨?_, P⟩
  rw [R]
  simp [cs, sessionSpec, codedCall, List.map_map, Function.comp_def]

/-- the `corr` call of a session (rows centred, then `_cosine`) is the correlation of section 2 -/
theorem session_corr_is_corr (xs ys : List (List ℝ)) :
    compareAll cosineCoded (xs.map center) (ys.map center) = compareAll corr xs ys := by
  simp only [compareAll, List.map_map, Function.comp_def]
  congr 1; funext x; congr 1; funext y
  rw [cosineCoded_eq]; rfl

/-- the hypothesis is needed: a parser that aliases together with an in-place centring makes a later
    call see the centred data (the values of a `corr`-then-`sum` session on ℤ-valued rows) -/
theorem session_alias_inplace_witness :
    let c1 : Call (List Int) Int := ⟨true, true, fun r => r.map (· - r.sum / 3), fun x y => (x.zip y).foldl (fun s p => s + p.1 * p.2) 0⟩
    let c2 : Call (List Int) Int := ⟨true, false, id, fun x y => (x.zip y).foldl (fun s p => s + p.1 * p.2) 0⟩
    (sessionRun [c1, c2] [[[1, 2, 6]], [[3, 3, 0]]] 0 1).2 ≠ sessionSpec [c1, c2] [[1, 2, 6]] [[3, 3, 0]] ∧
    (sessionRun [c1, c2] [[[1, 2, 6]], [[3, 3, 0]]] 0 1).1.getD 0 [] ≠ [[1, 2, 6]] := by
  decide

-- non-vacuity: a three-call session on two float-free stacks, both arguments valid cells, one call
-- per flag combination that `Call.safe` admits
example : (∀ c ∈ ([⟨false, true, id, fun x y => x + y⟩, ⟨true, false, (· + 1), fun x y => x * y⟩,
      ⟨false, false, id, fun x y => x - y⟩] : List (Call Int Int)), c.safe = true) ∧
    (0 < ([[1, 2], [3]] : Store Int).length ∧ 1 < ([[1, 2], [3]] : Store Int).length) := by
  decide

/-! ## 20. Positive scaling (round 5): every similarity is unchanged when either RDM is multiplied by a
    positive number — RDMs of any magnitude (squared distances of MEG data in tesla, ~1e-26) are inside the
    quantifier of the property.  `scaleBy c x = x.map (c * ·)`. -/

/-- the zero-norm guard of `_cosine` *as written in the source text* (regenerated leaf `cosineSel`) is
    scale-free: a positive multiple of a norm is selected iff the norm is.  An absolute tolerance
    (`norm > 1e-12`, `norm² > eps`) does not have this property. -/
theorem cosine_guard_scale_free (c a : ℝ) (hc : 0 < c) :
    Rsa.Gen.C03.cosineSel (c * a) = Rsa.Gen.C03.cosineSel a := by
  have h1 := cosineSel_iff (c * a)
  have h2 := cosineSel_iff a
  have h3 : 0 < c * a ↔ 0 < a := mul_pos_iff_of_pos_left hc
  have hb : ∀ t : ℝ, Rsa.Gen.C03.cosineSel t = 1 ∨ Rsa.Gen.C03.cosineSel t = 0 := by
    intro t; unfold Rsa.Gen.C03.cosineSel; split_ifs <;> simp
  by_cases h : 0 < a
  · rw [h2.mpr h, h1.mpr (h3.mpr h)]
  · have e2 : Rsa.Gen.C03.cosineSel a = 0 := (hb a).resolve_left (fun e => h (h2.mp e))
    have e1 : Rsa.Gen.C03.cosineSel (c * a) = 0 :=
      (hb (c * a)).resolve_left (fun e => h (h3.mp (h1.mp e)))
    rw [e1, e2]

theorem cosine_scale (x y : List ℝ) (c d : ℝ) (hc : 0 < c) (hd : 0 < d) :
    cosine (scaleBy c x) (scaleBy d y) = cosine x y := by
  rw [cosine_eq, cosine_eq, dot_scale, dot_scale, dot_scale, sqrt_scale_sq c _ hc, sqrt_scale_sq d _ hd]
  by_cases h : 0 < Real.sqrt (dot x x) ∧ 0 < Real.sqrt (dot y y)
  · rw [if_pos h, if_pos ⟨mul_pos hc h.1, mul_pos hd h.2⟩]
    have := h.1.ne'
    have := h.2.ne'
    field_simp
  · rw [if_neg h, if_neg]
    rintro ⟨a, b⟩
    exact h ⟨(mul_pos_iff_of_pos_left hc).mp a, (mul_pos_iff_of_pos_left hd).mp b⟩

theorem corr_scale (x y : List ℝ) (c d : ℝ) (hc : 0 < c) (hd : 0 < d) :
    corr (scaleBy c x) (scaleBy d y) = corr x y := by
  unfold corr
  rw [center_scale, center_scale]
  exact cosine_scale _ _ c d hc hd

/-- the same for `_cosine` / `compare_correlation` / `compare_spearman` as coded (guard and the two
    divisions from the source text) -/
theorem cosine_coded_scale (x y : List ℝ) (c d : ℝ) (hc : 0 < c) (hd : 0 < d) :
    cosineCoded (scaleBy c x) (scaleBy d y) = cosineCoded x y ∧
    corrCoded (scaleBy c x) (scaleBy d y) = corrCoded x y ∧
    spearmanCoded (scaleBy c x) (scaleBy d y) = spearmanCoded x y := by
  refine ⟨?_, ?_, ?_⟩
  · rw [cosineCoded_eq, cosineCoded_eq]; exact cosine_scale x y c d hc hd
  · rw [corrCoded_eq, corrCoded_eq]; exact corr_scale x y c d hc hd
  · rw [spearmanCoded_eq, spearmanCoded_eq]; unfold spearman
    rw [avgRank_scale c hc, avgRank_scale d hd]

theorem spearman_scale (x y : List ℝ) (c d : ℝ) (hc : 0 < c) (hd : 0 < d) :
    spearman (scaleBy c x) (scaleBy d y) = spearman x y := by
  unfold spearman
  rw [avgRank_scale c hc, avgRank_scale d hd]

theorem rhoA_scale (x y : List ℝ) (c d : ℝ) (hc : 0 < c) (hd : 0 < d) :
    rhoA (scaleBy c x) (scaleBy d y) = rhoA x y ∧ rhoACoded (scaleBy c x) (scaleBy d y) = rhoACoded x y := by
  constructor
  · unfold rhoA
    rw [avgRank_scale c hc, avgRank_scale d hd, scaleBy_length]
  · unfold rhoACoded
    rw [avgRank_scale c hc, avgRank_scale d hd, scaleBy_length]

/-- Kendall: all five pair counts are those of the unscaled vectors, hence tau-a (as coded and as defined)
    and tau-b (incl. its NaN case) do not change -/
theorem tau_scale (x y : List ℝ) (c d : ℝ) (hc : 0 < c) (hd : 0 < d) :
    tauA (scaleBy c x) (scaleBy d y) = tauA x y ∧ tauASpec (scaleBy c x) (scaleBy d y) = tauASpec x y ∧
    tauB (scaleBy c x) (scaleBy d y) = tauB x y := by
  obtain ⟨h1, h2, h3, h4, h5⟩ := counts_scale c d hc hd x y
  refine ⟨?_, ?_, ?_⟩
  · unfold tauA conMinusDis
    rw [h2, h3, h4, h5, scaleBy_length]
  · unfold tauASpec
    rw [h1, h2, scaleBy_length]
  · unfold tauB conMinusDis
    rw [h2, h3, h4, h5, scaleBy_length]

/-- whitened cosine / correlation: if `V s = r` then `V (c s) = c r`, and the three inner products of the
    coded expression scale so that the value (and the undefined case) is unchanged — for every `V`,
    every solver -/
theorem whitened_scale (V : List (List ℝ)) (r1 r2 s1 s2 : List ℝ) (c d : ℝ) (hc : 0 < c) (hd : 0 < d) :
    (matVec V s1 = r1 → matVec V (scaleBy c s1) = scaleBy c r1) ∧
    wcosFrom (scaleBy c r1) (scaleBy d r2) (scaleBy c s1) (scaleBy d s2) = wcosFrom r1 r2 s1 s2 := by
  constructor
  · intro h
    subst h
    unfold matVec
    simp only [scaleBy, List.map_map, Function.comp_def]
    apply List.map_congr_left
    intro r _
    have := dot_scale 1 c r s1
    simpa [scaleBy] using this
  · rw [wcosFrom_eq, wcosFrom_eq, dot_scale, dot_scale, dot_scale, sqrt_scale_sq c _ hc, sqrt_scale_sq d _ hd]
    have hcc : 0 < c * c := mul_pos hc hc
    have hdd : 0 < d * d := mul_pos hd hd
    by_cases h : 0 < dot r1 s1 ∧ 0 < dot r2 s2
    · rw [if_pos h, if_pos ⟨mul_pos hcc h.1, mul_pos hdd h.2⟩]
      have := (Real.sqrt_pos.mpr h.1).ne'
      have := (Real.sqrt_pos.mpr h.2).ne'
      congr 1
      field_simp
    · rw [if_neg h, if_neg]
      rintro ⟨a, b⟩
      exact h ⟨(mul_pos_iff_of_pos_left hcc).mp a, (mul_pos_iff_of_pos_left hdd).mp b⟩

/-- `cosine_cov` / `corr_cov` with `sigma_k = None`: the linear-CKA fast path is homogeneous in the RDM, so
    the value as dispatched by the code (guard of `_cosine` from the text) does not depend on the scale -/
theorem whitened_fast_scale (n : ℕ) (r1 r2 : List ℝ) (c d : ℝ) (hc : 0 < c) (hd : 0 < d) :
    whitenedCosFast n (scaleBy c r1) (scaleBy d r2) = whitenedCosFast n r1 r2 ∧
    whitenedCosDispatch SigmaK.none (scaleBy c r1) (scaleBy d r2) = whitenedCosDispatch SigmaK.none r1 r2 := by
  have key : ∀ m, cosine (covWeighting m (scaleBy c r1)) (covWeighting m (scaleBy d r2))
      = cosine (covWeighting m r1) (covWeighting m r2) := by
    intro m
    rw [covWeighting_scale, covWeighting_scale]
    exact cosine_scale _ _ c d hc hd
  refine ⟨key n, ?_⟩
  unfold whitenedCosDispatch
  have hr : covRouteOf (SigmaK.none : SigmaK ℝ) ≠ 1 := by
    simp [covRouteOf, Rsa.Gen.C03.covRouteNone]
  rw [if_neg hr, if_neg hr, scaleBy_length, cosineCoded_eq, cosineCoded_eq, covWeighting3_eq,
    covWeighting3_eq, covWeighting3_eq, covWeighting3_eq, key]

/-- the scale laws of the two Bures measures, kept as a statement (`eigh` is a contract; the laws are checked
    on the code and inside the model by the correspondence and the oracle, claim `scale`) -/
def bures_scale_full : Prop :=
  ∀ (n : ℕ) (eigh : List (List ℝ) → List ℝ × List (List ℝ)), EigContract n eigh →
    ∀ (A B : List (List ℝ)) (c d : ℝ), 0 < c → 0 < d →
      SqrtContract n eigh A → SqrtContract n eigh (A.map (scaleBy c)) → IsSq n B →
      buresSim eigh (A.map (scaleBy c)) (B.map (scaleBy d)) = buresSim eigh A B ∧
      sqBuresMetric eigh (A.map (scaleBy c)) (B.map (scaleBy c)) = c * sqBuresMetric eigh A B

-- non-vacuity: the MEG-in-tesla scale of the seeded change (norm² below machine epsilon) is a positive factor
example : (0 : ℝ) < 1 / 2 ^ 90 ∧ cosine (scaleBy (1 / 2 ^ 90) [3, 0, 4]) (scaleBy (2 ^ 60) [3, 0, 4]) = 1 := by
  refine ⟨by positivity, ?_⟩
  rw [cosine_scale _ _ _ _ (by positivity) (by positivity)]
  exact cosine_self _ ⟨3, by simp, by norm_num⟩

end Rsa.Props.C03
