#!/venv/bin/python
"""C14-mut.py <name>: make worktree /tmp/wt/C14-<name> with the named mutation"""
import subprocess, sys, os
name = sys.argv[1]
d = f'/tmp/wt/C14-{name}'
subprocess.run(['git', '-C', '/repo', 'worktree', 'remove', '--force', d], capture_output=True)
subprocess.run(['git', '-C', '/repo', 'worktree', 'add', '--detach', d, 'HEAD'], capture_output=True, check=True)
subprocess.run(f'cp /repo/src/rsatoolbox/cengine/similarity*.so /repo/src/rsatoolbox/cengine/similarity.c {d}/src/rsatoolbox/cengine/', shell=True, check=True)
N = 'src/rsatoolbox/data/noise.py'
M = {
 'n1': [(N, "    if d2 > 0:\n        s_shrink = b2", "    if d2 >= 0:\n        s_shrink = b2")],
 'n2': [(N, "    cov = cov_from_unbalanced(dataset, obs_desc, dof=dof, method=method)", "    cov = cov_from_unbalanced(dataset, obs_desc, method=method)")],
 'n3': [(N, "    cov = cov_from_measurements(dataset, obs_desc, dof=dof, method=method)", "    cov = cov_from_measurements(dataset, obs_desc, dof=dof)")],
 'n4': [(N, "        tensor, _ = dataset.get_measurements_tensor(obs_desc)", "        tensor, _ = dataset.get_measurements_tensor(list(dataset.obs_descriptors.keys())[0])")],
 'n5': [(N, "        matrix = matrix - np.mean(matrix, axis=2, keepdims=True)", "        matrix = matrix - np.mean(matrix, axis=0, keepdims=True)")],
 'n8': [(N, "        matrix = matrix - np.mean(matrix, axis=0, keepdims=True)", "        matrix -= np.mean(matrix, axis=0, keepdims=True)")],
 'n9': [(N, """            elif isinstance(dof, Iterable):
                cov_mat.append(cov_from_residuals(""", """            elif isinstance(dof, list):
                cov_mat.append(cov_from_residuals(""")],
 'n11': [(N, "    if denom > 0:", "    if denom >= 0:")],
 'n12': [(N, "    if dof is None:\n        dof = dof_nat\n", "    dof = dof_nat - 1 if dof is None else dof\n"),
         (N, "    return np.einsum('ij, ik-> jk', matrix, matrix, optimize=True) / dof", "    return np.einsum('ij, ik-> jk', matrix, matrix, optimize=True) / (dof + 1)")],
 'n13': [(N, "        dof = matrix.shape[0] - 1\n", "        matrix = matrix.ravel(order='K').reshape(matrix.shape)\n        dof = matrix.shape[0] - 1\n")],
 'n14': [('src/rsatoolbox/data/dataset.py', "        measurements_tensor = np.swapaxes(measurements_tensor, 1, 2)\n        return measurements_tensor, unique_values", "        measurements_tensor = np.swapaxes(measurements_tensor, 2, 1)[..., ::-1]\n        return measurements_tensor, unique_values")],
 'n14b': [('src/rsatoolbox/data/dataset.py', "        measurements_tensor = np.stack(measurements_list, axis=0)", "        measurements_tensor = np.stack(measurements_list, axis=1)")],
 'n15': [(N, "        dof = matrix.shape[0] * (matrix.shape[2] - 1)\n        matrix = matrix.transpose(0, 2, 1).reshape(", "        dof = matrix.shape[0] * (matrix.shape[2] - 1)\n        matrix = matrix.transpose(2, 0, 1).reshape(")],
}
for path, old, new in M[name]:
    p = os.path.join(d, path)
    s = open(p).read()
    assert s.count(old) == 1, (name, old, s.count(old))
    open(p, 'w').write(s.replace(old, new))
print(d)
