"""round-5 mutants of the 'inversion' family.  usage: python notes/C14-mutants-r5.py <name> <worktree>
(worktree = fresh `git -C /repo worktree add --detach <worktree> HEAD` + the compiled kernel)"""
import sys, re
name, wt = sys.argv[1], sys.argv[2]
path = wt + '/src/rsatoolbox/data/noise.py'
s = open(path).read()
if name == 'm1':
    # unusual argument type: only the list / tuple branch uses the pseudo-inverse, arrays keep np.linalg.inv
    old = "        for i, cov_i in enumerate(cov):\n            prec[i] = np.linalg.inv(cov_i)\n    elif"
    assert s.count(old) == 3
    s = s.replace(old, "        for i, cov_i in enumerate(cov):\n            prec[i] = np.linalg.pinv(cov_i, hermitian=True)\n    elif")
elif name == 'm2':
    # absolute jitter 'for numerical stability': invisible on data of ordinary scale, dominates a
    # covariance in tiny units (tesla^2 ~ 1e-26)
    assert s.count("prec = np.linalg.inv(cov)") == 3
    s = s.replace("prec = np.linalg.inv(cov)", "prec = np.linalg.inv(cov + 1e-20 * np.eye(len(cov)))")
    s = s.replace("prec[i] = np.linalg.inv(cov_i)", "prec[i] = np.linalg.inv(cov_i + 1e-20 * np.eye(len(cov_i)))")
elif name == 'm3':
    # stateful: an eigenvalue floor remembered at module level across calls (largest trace seen so far)
    s = s.replace("def cov_from_residuals(", '''_FLOOR = [0.0]


def _inv_floor(cov):
    w, v = np.linalg.eigh(cov)
    _FLOOR[0] = max(_FLOOR[0], 1e-15 * float(np.max(np.abs(w))))
    if np.min(np.abs(w)) == 0:
        raise np.linalg.LinAlgError('Singular matrix')
    keep = np.abs(w) > _FLOOR[0]
    return (v * np.where(keep, 1 / np.where(keep, w, 1), 0)) @ v.T


def cov_from_residuals(''', 1)
    s = s.replace("np.linalg.inv(cov_i)", "_inv_floor(cov_i)").replace("prec = np.linalg.inv(cov)", "prec = _inv_floor(cov)")
elif name == 'm4':
    # multi-step inside one call: one threshold for the whole list, taken from its first element
    old = "        for i, cov_i in enumerate(cov):\n            prec[i] = np.linalg.inv(cov_i)\n    elif"
    new = ("        rc = 1e-15 * np.abs(cov[0]).max()\n        for i, cov_i in enumerate(cov):\n"
           "            prec[i] = np.linalg.pinv(cov_i, rcond=rc / np.abs(cov_i).max(), hermitian=True)\n    elif")
    assert s.count(old) == 3
    s = s.replace(old, new)
else:
    raise SystemExit('unknown mutant')
open(path, 'w').write(s)
