"""smoke test of the session cases (round 4): RSA_REPO=<tree> python notes/C14-session-smoke.py [seed]"""
import os, sys, random, time
sys.path.insert(0, os.path.join(os.environ.get('RSA_REPO', '/repo'), 'src'))
sys.path.insert(0, os.path.join(os.path.dirname(os.path.abspath(__file__)), '..', 'harness'))
os.environ['TQDM_DISABLE'] = '1'
from collections import Counter
from engines import C14
import lean
rng = random.Random(int(sys.argv[1]) if len(sys.argv) > 1 else 5)
tier = sys.argv[2] if len(sys.argv) > 2 else 'quick'
cases = list(C14.SES.generate(rng, tier))
t = time.time()
ans = lean.Driver().ask_many([r for c in cases for r in C14.model_requests(c)])
bad_c = bad_o = 0
br = Counter()
for c, a in zip(cases, ans):
    impl = C14.run_impl(c)
    d = C14.compare(c, impl, C14.model_result(c, [lean.ok(a)]))
    o = C14.oracle(c)
    for b in C14.features(c, impl)['branches']:
        br[b] += 1
    bad_c += bool(d)
    bad_o += bool(o)
    if (d or o) and bad_c + bad_o < 6:
        print('DIS', d, '|', o and o['what'], o and o['observed'])
print(len(cases), 'sessions; disagreements', bad_c, 'oracle failures', bad_o, f'{time.time() - t:.1f}s')
print({b: br[b] for b in C14.SES.BRANCHES})
