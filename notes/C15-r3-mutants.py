#!/venv/bin/python
"""round-3 mutants of C15: each is applied to a fresh scratch worktree, checked, reverted"""
import os
import re
import subprocess
import sys

WT = '/tmp/wt/C15-m1'
CU = WT + '/src/rsatoolbox/rdm/calc_unbalanced.py'
CC = WT + '/src/rsatoolbox/cengine/similarity.c'
LOG = '/tmp/wt/C15-mut.log'


def sub(path, old, new, count=1):
    s = open(path).read()
    assert old in s, (path, old)
    s = s.replace(old, new, count)
    open(path, 'w').write(s)


MUT = {
    'n1-layout-ravelA': lambda: sub(CU, 'return a.astype(np.float64)',
                                    "return np.reshape(a.astype(np.float64).ravel(order='A'), a.shape)"),
    'n2-default-prior-weight': lambda: sub(CU, "prior_lambda=1, prior_weight=0.1,\n                        weighting='number', enforce_same=False",
                                           "prior_lambda=1, prior_weight=1,\n                        weighting='number', enforce_same=False"),
    'n3-one-drops-prior': lambda: sub(CU, "        method_idx, noise=noise,\n        prior_lambda=prior_lambda, prior_weight=prior_weight,\n        weighting=weight_idx)",
                                      "        method_idx, noise=noise,\n        weighting=weight_idx)"),
    'n4-list-drops-weighting': lambda: sub(CU, "                    prior_lambda=prior_lambda, prior_weight=prior_weight,\n                    weighting=weighting, enforce_same=enforce_same))\n            elif isinstance(noise, np.ndarray)",
                                           "                    prior_lambda=prior_lambda, prior_weight=prior_weight,\n                    enforce_same=enforce_same))\n            elif isinstance(noise, np.ndarray)"),
    'n5-c-text-only': lambda: sub(CC, '__pyx_v_sim = (__pyx_v_sim / ((__pyx_t_10rsatoolbox_7cengine_10similarity_float_t)2.0));',
                                  '__pyx_v_sim = (__pyx_v_sim / ((__pyx_t_10rsatoolbox_7cengine_10similarity_float_t)3.0));'),
    'n6-fallback-fold-is-condition': lambda: sub(CU, "                cv_descriptor = 'index'", "                cv_descriptor = descriptor"),
    'n7-tril': lambda: sub(CU, 'np.triu_indices(len(unique_cond), 1)', 'np.tril_indices(len(unique_cond), -1)'),
    'n8-float32-roundtrip': lambda: sub(CU, 'return a.astype(np.float64)', 'return a.astype(np.float32).astype(np.float64)'),
    'n9-stale-label-cache': lambda: (
        sub(CU, 'def calc_rdm_unbalanced(', '_COND_CACHE = {}\n\n\ndef calc_rdm_unbalanced('),
        sub(CU, "        unique_cond, cond_indices = get_unique_inverse(\n            dataset.obs_descriptors[descriptor])",
            "        key = (descriptor, dataset.n_obs)\n        if key not in _COND_CACHE:\n            _COND_CACHE[key] = get_unique_inverse(\n                dataset.obs_descriptors[descriptor])\n        unique_cond, cond_indices = _COND_CACHE[key]")),
    'n10-fallback-only-crossnobis': lambda: sub(CU, "if method == 'crossnobis' or method == 'poisson_cv':", "if method == 'crossnobis':"),
    'n11-one-ensure-double-dropped': lambda: sub(CU, "        ensure_double(data_j.measurements),", "        np.ascontiguousarray(data_j.measurements[::-1])[::-1],"),
}


def run(cmd, **kw):
    return subprocess.run(cmd, stdout=subprocess.PIPE, stderr=subprocess.STDOUT, **kw).stdout.decode(errors='replace')


def main():
    names = sys.argv[1:] or list(MUT)
    if not os.path.isdir(WT):
        run(['git', '-C', '/repo', 'worktree', 'add', '--detach', WT, 'HEAD'])
        run(['bash', '-c', f'cp /repo/src/rsatoolbox/cengine/similarity*.so /repo/src/rsatoolbox/cengine/similarity.c {WT}/src/rsatoolbox/cengine/'])
    with open(LOG, 'a') as log:
        for n in names:
            tier = 'thorough' if n.startswith('n5') else 'quick'
            run(['git', '-C', WT, 'checkout', '--', '.'])
            run(['bash', '-c', f'cp /repo/src/rsatoolbox/cengine/similarity.c {WT}/src/rsatoolbox/cengine/'])
            MUT[n]()
            env = dict(os.environ, RSA_REPO=WT)
            env.pop('RSA_REPO_SRC', None)
            p = subprocess.run(['./check', 'C15', '--tier', tier], cwd='/tmp/w/C15', env=env,
                               stdout=subprocess.PIPE, stderr=subprocess.STDOUT)
            out = p.stdout.decode(errors='replace')
            keep = [l for l in out.split('\n') if re.match(r'(C15 |VIOLATION|INFRA|note)', l)]
            log.write(f'=== {n} ({tier}) exit {p.returncode}\n' + '\n'.join(keep[:6]) + '\n')
            # what does the first replay say?
            m = re.search(r'replay=(\S+)', out)
            if m and os.path.exists(m.group(1)):
                import json
                rp = json.load(open(m.group(1)))
                o = rp.get('oracle') or {}
                log.write('   first replay: ' + str(o.get('what', rp.get('no_longer_checks', ''))[:3] if not o else o.get('what'))[:300] + '\n')
                if rp.get('case'):
                    c = rp['case']
                    log.write(f"   case: method={c.get('method')} weighting={c.get('weighting')} dtype={c.get('dtype')} order={c.get('order')} "
                              f"n_obs={len(c.get('labels', []))} P={len(c['vals'][0]) if c.get('vals') else None} vclass={c.get('vclass')} "
                              f"defaults={c.get('defaults')} one={c.get('one')} extra={bool(c.get('extra'))}\n")
            log.flush()
    run(['git', '-C', WT, 'checkout', '--', '.'])


if __name__ == '__main__':
    main()
