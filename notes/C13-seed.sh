#!/bin/bash
# usage: notes/C13-seed.sh <id>   e.g. C13-6
# applies seeded/<id>/patch.diff in a fresh scratch worktree of /repo HEAD (falls back to `patch -F3` when the
# context lines moved, as for C13-2) and runs this copy's check against it; the worktree is removed afterwards.
here=$(cd "$(dirname "$0")/.." && pwd)
id=$1
wt=/tmp/wt/C13-s-$id
git -C /repo worktree remove --force $wt >/dev/null 2>&1
git -C /repo worktree add --detach $wt HEAD >/dev/null 2>&1
cp /repo/src/rsatoolbox/cengine/similarity*.so /repo/src/rsatoolbox/cengine/similarity.c $wt/src/rsatoolbox/cengine/ 2>/dev/null
git -C $wt apply $here/seeded/$id/patch.diff 2>/dev/null || (cd $wt && patch -s -p1 -F3 < $here/seeded/$id/patch.diff) \
  || { echo "patch failed"; git -C /repo worktree remove --force $wt; exit 3; }
cd $here && RSA_REPO=$wt ./check C13 2>&1 | grep -v "^WARNING" | tail -6
echo "exit ${PIPESTATUS[0]}"
git -C /repo worktree remove --force $wt
