#!/venv/bin/python
"""C14-mutants-r4.py <name>: make worktree /tmp/wt/C14-<name> with the named round-4 mutation
(stateful / multi-step family: something remembered on or about a Dataset object goes stale)"""
import subprocess, sys, os
name = sys.argv[1]
d = f'/tmp/wt/C14-{name}'
subprocess.run(['git', '-C', '/repo', 'worktree', 'remove', '--force', d], capture_output=True)
subprocess.run(['git', '-C', '/repo', 'worktree', 'add', '--detach', d, 'HEAD'], capture_output=True, check=True)
subprocess.run(f'cp /repo/src/rsatoolbox/cengine/similarity*.so /repo/src/rsatoolbox/cengine/similarity.c {d}/src/rsatoolbox/cengine/', shell=True, check=True)
N = 'src/rsatoolbox/data/noise.py'
D = 'src/rsatoolbox/data/dataset.py'
M = {
 # s1: cov_from_unbalanced memoises (values, inverse) per descriptor name on the object
 #     -> stale after sort_by / a store into the descriptor; only the unbalanced estimator is affected
 's1': [(N, "        values, inverse = get_unique_inverse(dataset.obs_descriptors[obs_desc])\n        matrix = dataset.measurements - means[inverse]",
            "        memo = dataset.__dict__.setdefault('_inverse_memo', {})\n"
            "        if obs_desc not in memo:\n"
            "            memo[obs_desc] = get_unique_inverse(dataset.obs_descriptors[obs_desc])\n"
            "        values, inverse = memo[obs_desc]\n"
            "        matrix = dataset.measurements - means[inverse]")],
 # s2: module-level memo of the measurement-based covariance keyed by (id(dataset), descriptor, method, dof)
 #     -> stale after ANY in-place change (also a store into measurements), fresh objects unaffected
 's2': [(N, "        tensor, _ = dataset.get_measurements_tensor(obs_desc)\n        # calculate sample covariance matrix s\n        cov_mat = _estimate_covariance(tensor, dof, method)",
            "        key = (id(dataset), obs_desc, method, None if dof is None else float(dof))\n"
            "        if key not in _COV_MEMO:\n"
            "            tensor, _ = dataset.get_measurements_tensor(obs_desc)\n"
            "            _COV_MEMO[key] = (dataset, _estimate_covariance(tensor, dof, method))\n"
            "        cov_mat = _COV_MEMO[key][1].copy()"),
        (N, "def cov_from_measurements(dataset, obs_desc, dof=None, method='shrinkage_diag'):",
            "_COV_MEMO = {}\n\n\ndef cov_from_measurements(dataset, obs_desc, dof=None, method='shrinkage_diag'):")],
 # s3: prec_from_measurements keeps the precision on the object per (descriptor, method) -- forgets dof and content
 's3': [(N, "    cov = cov_from_measurements(dataset, obs_desc, dof=dof, method=method)\n    if not isinstance(cov, np.ndarray):",
            "    if not isinstance(dataset, Iterable):\n"
            "        memo = dataset.__dict__.setdefault('_prec_memo', {})\n"
            "        if (obs_desc, method) in memo:\n"
            "            return memo[(obs_desc, method)].copy()\n"
            "    cov = cov_from_measurements(dataset, obs_desc, dof=dof, method=method)\n"
            "    if isinstance(cov, np.ndarray) and len(cov.shape) == 2:\n"
            "        memo[(obs_desc, method)] = np.linalg.inv(cov)\n"
            "        return memo[(obs_desc, method)].copy()\n"
            "    if not isinstance(cov, np.ndarray):")],
 # s4: Dataset.sort_by re-orders the measurements and the descriptor sorted by, the other descriptors stay
 's4': [(D, "        self.measurements = self.measurements[order]\n        self.obs_descriptors = subset_descriptor(self.obs_descriptors, order)\n\n    def get_measurements(self):",
            "        self.measurements = self.measurements[order]\n        self.obs_descriptors[by] = [desc[i] for i in order]\n\n    def get_measurements(self):")],
 # s5: property-preserving control: sort_by with an in-place slice store and an unstable sort kind
 's5': [(D, "        order = np.argsort(desc, kind='stable')\n        self.measurements = self.measurements[order]\n        self.obs_descriptors = subset_descriptor(self.obs_descriptors, order)\n\n    def get_measurements(self):",
            "        order = np.argsort(desc)\n        self.measurements[:] = self.measurements[order]\n        self.obs_descriptors = subset_descriptor(self.obs_descriptors, order)\n\n    def get_measurements(self):")],
 # s6: unusual argument type: the unique values of an ndarray descriptor are taken with np.unique (sorted) but the
 #     rows are still grouped in order of first appearance only for lists -> harmless on its own; together with the
 #     memo of the tensor's unique values per *type* ... (kept simple:) ndarray descriptors are memoised, lists not
 's6': [(D, "        unique_values = get_unique_unsorted(self.obs_descriptors[by])\n        measurements_list = []",
            "        if isinstance(self.obs_descriptors[by], np.ndarray):\n"
            "            memo = self.__dict__.setdefault('_uniq_memo', {})\n"
            "            if by not in memo:\n"
            "                memo[by] = (self.obs_descriptors[by].copy(), get_unique_unsorted(self.obs_descriptors[by]))\n"
            "            unique_values = memo[by][1]\n"
            "            self_desc = memo[by][0]\n"
            "        else:\n"
            "            unique_values = get_unique_unsorted(self.obs_descriptors[by])\n"
            "            self_desc = self.obs_descriptors[by]\n"
            "        measurements_list = []"),
        (D, "            selection = np.array([desc == v\n                                  for desc in self.obs_descriptors[by]])\n            measurements_subset = self.measurements[selection, :]\n            measurements_list.append(measurements_subset)\n        measurements_tensor = np.stack(measurements_list, axis=0)",
            "            selection = np.array([desc == v\n                                  for desc in self_desc])\n            measurements_subset = self.measurements[selection, :]\n            measurements_list.append(measurements_subset)\n        measurements_tensor = np.stack(measurements_list, axis=0)")],
}
for path, old, new in M[name]:
    p = os.path.join(d, path)
    s = open(p).read()
    assert s.count(old) == 1, (name, old, s.count(old))
    open(p, 'w').write(s.replace(old, new))
print(d)
