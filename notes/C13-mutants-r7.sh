#!/bin/bash
# round-7 mutants of the `_nan_mean` family; usage: C13-mut7.sh M1|M2|M3
id=$1; wt=/tmp/wt/C13-m7-$id
git -C /repo worktree remove --force $wt >/dev/null 2>&1
git -C /repo worktree add --detach $wt HEAD >/dev/null 2>&1
cp /repo/src/rsatoolbox/cengine/similarity*.so /repo/src/rsatoolbox/cengine/similarity.c $wt/src/rsatoolbox/cengine/
/venv/bin/python - $id $wt <<'PY'
import sys
id, wt = sys.argv[1:]
if id == 'M1':   # the OTHER copy (util/pooling.py) pools the compacted rows into the first RDM's mask
    p = wt + '/src/rsatoolbox/util/pooling.py'
    s = open(p).read()
    old = "    mean_values = np.mean(rdm_vector[:, nan_idx], axis=0)\n"
    new = ("    mean_values = np.mean(rdm_vector[~np.isnan(rdm_vector)].reshape(\n"
           "        rdm_vector.shape[0], -1), axis=0)\n")
elif id == 'M2': # inference_util: every row compacted to the left (stable argsort of isnan), unequal counts too
    p = wt + '/src/rsatoolbox/util/inference_util.py'
    s = open(p).read()
    old = "    mean_values = np.mean(rdm_vector[:, nan_idx], axis=0)\n"
    new = ("    order = np.argsort(np.isnan(rdm_vector), axis=1, kind='stable')\n"
           "    packed = np.take_along_axis(rdm_vector, order, axis=1)\n"
           "    mean_values = np.mean(packed[:, :int(nan_idx.sum())], axis=0)\n")
elif id == 'M3': # pooling.py whitened norms: each RDM's own first present entries instead of the common ones
    p = wt + '/src/rsatoolbox/util/pooling.py'
    s = open(p).read()
    old = "        rdm_vec_nonan = rdm_vec[:, ok_idx]\n"
    new = ("        rdm_vec_nonan = np.array([r[~np.isnan(r)][:int(ok_idx.sum())] for r in rdm_vec])\n")
assert old in s
s = s.replace(old, new)
open(p, 'w').write(s)
PY
cd /tmp/w/C13 && RSA_REPO=$wt ./check C13 2>&1 | grep -v "^WARNING" | tail -4 | cut -c1-220
echo "exit ${PIPESTATUS[0]}"
git -C /repo worktree remove --force $wt
