import sys, subprocess, os
WT='/tmp/wt/C13-1'
def run(name, file, old, new, count=1):
    p=os.path.join(WT,'src/rsatoolbox',file)
    s=open(p).read()
    assert s.count(old)>=1, (name,'pattern not found')
    open(p,'w').write(s.replace(old,new,count))
    r=subprocess.run(['./check','C13'],cwd='/tmp/w/C13',env=dict(os.environ,RSA_REPO=WT),stdout=subprocess.PIPE,stderr=subprocess.STDOUT)
    out=r.stdout.decode()
    print('=== MUTANT',name,'exit',r.returncode)
    for l in out.splitlines():
        if l.startswith(('VIOLATION','C13 ','INFRA','note')): print('   ',l[:300])
    subprocess.run(['git','-C',WT,'checkout','-q','.'])
    return out
MUT={
 'M1':('rdm/compare.py',"""    if not (np.all(nan_idx == nan_idx[0]) and np.all(nan_idx2 == nan_idx[0])):
        raise ValueError('rdm1 and rdm2 have different nan positions')
    vector1_no_nan = vector1[nan_idx].reshape(vector1.shape[0], -1)
    vector2_no_nan = vector2[nan_idx2].reshape(vector2.shape[0], -1)
""","""    vector1_no_nan = vector1[nan_idx].reshape(vector1.shape[0], -1)
    vector2_no_nan = vector2[nan_idx2].reshape(vector2.shape[0], -1)
    if not vector1_no_nan.shape[1] == vector2_no_nan.shape[1]:
        raise ValueError('rdm1 and rdm2 have different nan positions')
"""),
 'M2':('util/rdm_utils.py',"""    if not (np.all(not_nan_mask == not_nan_mask[0])
            and np.all(not_nan_mask2 == not_nan_mask[0])):
        raise ValueError('rdm1 and rdm2 have different nan positions')
    vector1_no_nan = vector1[not_nan_mask].reshape(vector1.shape[0], -1)
    vector2_no_nan = vector2[not_nan_mask2].reshape(vector2.shape[0], -1)
""","""    vector1_no_nan = vector1[not_nan_mask].reshape(vector1.shape[0], -1)
    vector2_no_nan = vector2[not_nan_mask2].reshape(vector2.shape[0], -1)
    if not vector1_no_nan.shape[1] == vector2_no_nan.shape[1]:
        raise ValueError('rdm1 and rdm2 have different nan positions')
"""),
 'M3':('rdm/combine.py',"""    weights[np.isnan(vectors)] = np.nan
    weighted_sum""","""    weighted_sum"""),
 'M4':('rdm/compare.py',"""        sumI[n_dist:, :] /= 2
""",""""""),
 'M5':('util/inference_util.py',"""    ranks_no_nan = rankdata(rdm_vector[~np.isnan(rdm_vector)])""","""    ranks_no_nan = rankdata(np.nan_to_num(rdm_vector))[~np.isnan(rdm_vector)]"""),
 'M6':('rdm/combine.py',"""        tiled_estimate[np.isnan(dissim)] = nan
""",""""""),
 'M7':('model/fitter.py',"""    vectors, y, non_nan_mask = _parse_nan_vectors(vectors, y)""","""    non_nan_mask = ~np.isnan(vectors) & ~np.isnan(y)
    vectors, y = vectors[:, non_nan_mask[0]], y[:, non_nan_mask[0]]"""),
 'M8':('rdm/rdms.py',"""        for i_rdm in range(self.n_rdm):
            np.fill_diagonal(dissimilarities[i_rdm], np.nan)
        selection = np.sort(selection)""","""        selection = np.sort(selection)"""),
 'M9':('rdm/combine.py',"""        pidx = [all_patterns.index(i) for i in pdescs(rdms, descriptor)]""","""        pidx = sorted(all_patterns.index(i) for i in pdescs(rdms, descriptor))"""),
 'M10':('rdm/compare.py',"""        v = v[nan_idx][:, nan_idx]
    else:""","""        v = v[:vector1.shape[1]][:, :vector1.shape[1]]
    else:"""),
 'M11':('rdm/combine.py',"""        setsize = np.isfinite(dissim).sum(axis=1)""","""        setsize = np.full(n_rdms, n_conds)"""),
 'M12':('util/pooling.py',"""        ok_idx = np.all(np.isfinite(rdm_vec), axis=0)
        v = v[ok_idx][:, ok_idx]
        rdm_vec_nonan = rdm_vec[:, ok_idx]
        v_inv_x = np.array([scipy.sparse.linalg.cg(v, rdm_vec_nonan[i],
                                                   atol=10 ** -9)[0]
                            for i in range(rdms.n_rdm)])
        rdm_norms = np.einsum('ij, ij->i', rdm_vec_nonan, v_inv_x).reshape(
            [rdms.n_rdm, 1])
        rdm_vec = rdm_vec / _nonzero(np.sqrt(rdm_norms))
        rdm_vec = _nan_mean(rdm_vec)
    elif method == 'corr_cov':""","""        ok_idx = np.all(np.isfinite(rdm_vec), axis=0)
        v = v[:ok_idx.sum()][:, :ok_idx.sum()]
        rdm_vec_nonan = rdm_vec[:, ok_idx]
        v_inv_x = np.array([scipy.sparse.linalg.cg(v, rdm_vec_nonan[i],
                                                   atol=10 ** -9)[0]
                            for i in range(rdms.n_rdm)])
        rdm_norms = np.einsum('ij, ij->i', rdm_vec_nonan, v_inv_x).reshape(
            [rdms.n_rdm, 1])
        rdm_vec = rdm_vec / _nonzero(np.sqrt(rdm_norms))
        rdm_vec = _nan_mean(rdm_vec)
    elif method == 'corr_cov':"""),
}

MUT.update({
 'N1':('util/pooling.py',"rdm_vec = rdm_vec - np.nanmin(rdm_vec) + 0.01\n    elif method == 'cosine_cov':","rdm_vec = rdm_vec - np.nanmin(rdm_vec) + 0.02\n    elif method == 'cosine_cov':"),
 'N2':('util/inference_util.py',"        rdm_vec = rdm_vec / _nonzero(np.nanstd(rdm_vec, axis=1, keepdims=True))","        rdm_vec = rdm_vec / np.nanstd(rdm_vec, axis=1, keepdims=True)"),
 'N3':('rdm/compare.py',"            vector2 = rdm2.reshape(1, -1)","            vector2 = np.nan_to_num(rdm2).reshape(1, -1)"),
 'N4':('rdm/combine.py',"        all_patterns = list(dict.fromkeys(all_patterns).keys())","        all_patterns = sorted(dict.fromkeys(all_patterns).keys(), reverse=True)"),
 'N5':('rdm/rdms.py',"            selection = np.where(desc == value)[0]\n        selection = np.sort(selection)\n        dissimilarities = self.get_matrices()","            selection = np.where(desc != value)[0]\n        selection = np.sort(selection)\n        dissimilarities = self.get_matrices()"),
 'N6':('rdm/compare.py',"        v = v[nan_idx][:, nan_idx]\n    else:","        v = v[nan_idx][:, nan_idx] if sigma_k is not None else v[:nan_idx.sum()][:, :nan_idx.sum()]\n    else:"),
 'N7':('util/rdm_utils.py',"    vector1 = rdm1.get_vectors()\n    vector2 = rdm2.get_vectors()\n    return _parse_nan_vectors(vector1, vector2)","    vector1 = np.nan_to_num(rdm1.get_vectors())\n    vector2 = rdm2.get_vectors()\n    return _parse_nan_vectors(vector1, vector2)"),
})

for k in sys.argv[1:]:
    run(k,*MUT[k])


# ---- round 3: multi-call, layout, boundary, leaf-text mutants
MUT3 = {
 # descriptor weights are "cleaned" in place (zero where the RDM has no value): every single call is right, a
 # later mean of another stack sharing the weight array drops entries
 'R1': ('rdm/rdms.py', """            weights = self.rdm_descriptors[weights]
""", """            weights = self.rdm_descriptors[weights]
            if isinstance(weights, np.ndarray) and weights.ndim == 2 and weights.dtype == float:
                weights[np.isnan(self.dissimilarities)] = 0
"""),
 # boundary value of the evidence clip
 'R3': ('rdm/combine.py', "weights = (dissim ** 2).clip(0.2 ** 2)", "weights = (dissim ** 2).clip(0.2)"),
 # memory order: right for C-contiguous stacks, misaligned for Fortran-ordered ones
 'R5': ('rdm/compare.py', """    vector1_no_nan = vector1[nan_idx].reshape(vector1.shape[0], -1)
    vector2_no_nan = vector2[nan_idx2].reshape(vector2.shape[0], -1)
    return vector1_no_nan, vector2_no_nan, nan_idx[0]""", """    vector1_no_nan = vector1.ravel(order='K')[nan_idx.ravel(order='K')].reshape(vector1.shape[0], -1)
    vector2_no_nan = vector2.ravel(order='K')[nan_idx2.ravel(order='K')].reshape(vector2.shape[0], -1)
    return vector1_no_nan, vector2_no_nan, nan_idx[0]"""),
 # the same without touching the statements the leaves anchor on: a 'contiguity' shortcut before them
 'R5b': ('rdm/compare.py', """    vector2 = np.asarray(vector2, dtype=float)
    nan_idx = ~np.isnan(vector1)""", """    vector2 = np.asarray(vector2, dtype=float)
    vector1 = vector1.ravel(order='K').reshape(vector1.shape)
    vector2 = vector2.ravel(order='K').reshape(vector2.shape)
    nan_idx = ~np.isnan(vector1)"""),
 # each stack only has to be self-consistent
 'R7': ('rdm/compare.py', "np.all(nan_idx2 == nan_idx[0])", "np.all(nan_idx2 == nan_idx2[0])"),
 # `_scale` normalises in place: the first rescale is right, the source RDMs object is changed for later calls
 'R10': ('rdm/combine.py', "    return vectors / sqrt(_ss(vectors))", "    vectors /= sqrt(_ss(vectors))\n    return vectors"),
 # pooling normalises the data RDMs in place (cosine): the pooled RDM is right, later calls see unit-norm RDMs
 'R11': ('util/pooling.py', """        rdm_vec = rdm_vec / _nonzero(np.sqrt(np.nanmean(
            rdm_vec ** 2, axis=1, keepdims=True)))""", """        rdm_vec /= _nonzero(np.sqrt(np.nanmean(
            rdm_vec ** 2, axis=1, keepdims=True)))"""),
 # the non-negative fit reduces V with the mask of the *pooled data* only when the data have NaNs — two edits
 # that cooperate: the mask returned by the parser becomes 1-D and the fit indexes it without [0]
 'R12a': ('model/fitter.py', """        v = get_v(pred.n_cond, sigma_k)
        v = v[non_nan_mask[0]][:, non_nan_mask[0]]
    elif method == 'corr_cov':
        vectors = vectors - np.mean(vectors, 1, keepdims=True)
        y = y - np.mean(y)
        v = get_v(pred.n_cond, sigma_k)
        v = v[non_nan_mask[0]][:, non_nan_mask[0]]""", """        v = get_v(pred.n_cond, sigma_k)
        v = v[:vectors.shape[1]][:, :vectors.shape[1]]
    elif method == 'corr_cov':
        vectors = vectors - np.mean(vectors, 1, keepdims=True)
        y = y - np.mean(y)
        v = get_v(pred.n_cond, sigma_k)
        v = v[:vectors.shape[1]][:, :vectors.shape[1]]"""),
 # `_nn_least_squares`: coefficients may re-enter while still passive (old defect) - C08 matter, here: does the
 # nnls model notice a changed active-set rule?
 'R13': ('model/fitter.py', "p[np.where(~p)[0][np.argmax(w[~p])]] = True", "p[np.argmax(w)] = True"),
 # `_mean`: weights of RDMs *without* a value no longer ignored, but only for 1-D (per-RDM) weights given as list
 'R14': ('rdm/combine.py', """    weights[np.isnan(vectors)] = np.nan
    weighted_sum = np.nansum(vectors * weights, axis=0)
    return weighted_sum / np.nansum(weights, axis=0)""", """    weights[np.isnan(vectors)] = np.nan
    weighted_sum = np.nansum(vectors * weights, axis=0)
    return weighted_sum / np.nansum(weights, axis=0).clip(1e-12)"""),
 # sigma_k normalised in place by the fitter ("scale does not matter"): later calls see another sigma_k
 'R15': ('model/fitter.py', """    vectors = pred.get_vectors()
    data_mean = pool_rdm(data, method=method, sigma_k=sigma_k)
    y = data_mean.get_vectors()
    vectors, y, nan_idx = _parse_nan_vectors(vectors, y)""", """    vectors = pred.get_vectors()
    if isinstance(sigma_k, np.ndarray) and sigma_k.dtype == float:
        sigma_k /= sigma_k.max()
    data_mean = pool_rdm(data, method=method, sigma_k=sigma_k)
    y = data_mean.get_vectors()
    vectors, y, nan_idx = _parse_nan_vectors(vectors, y)"""),
}
MUT.update(MUT3)

if __name__ == '__main__' and os.environ.get('C13_R3'):
    for k in os.environ['C13_R3'].split(','):
        run(k, *MUT[k])
