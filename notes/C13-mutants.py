import sys, subprocess, os
WT='/tmp/wt/C13-1'
def run(name, file, old, new, count=1):
    p=os.path.join(WT,'src/rsatoolbox',file)
    s=open(p).read()
    assert s.count(old)>=1, (name,'pattern not found')
    open(p,'w').write(s.replace(old,new,count))
    r=subprocess.run(['./check','C13'],cwd='/tmp/w/C13',env=dict(os.environ,RSA_REPO=WT),stdout=subprocess.PIPE,stderr=subprocess.STDOUT)
    out=r.stdout.decode()
    print('=== MUTANT',name,'exit',r.returncode)
    for l in out.splitlines():
        if l.startswith(('VIOLATION','C13 ','INFRA','note')): print('   ',l[:300])
    subprocess.run(['git','-C',WT,'checkout','-q','.'])
    return out
MUT={
 'M1':('rdm/compare.py',"""    if not (np.all(nan_idx == nan_idx[0]) and np.all(nan_idx2 == nan_idx[0])):
        raise ValueError('rdm1 and rdm2 have different nan positions')
    vector1_no_nan = vector1[nan_idx].reshape(vector1.shape[0], -1)
    vector2_no_nan = vector2[nan_idx2].reshape(vector2.shape[0], -1)
""","""    vector1_no_nan = vector1[nan_idx].reshape(vector1.shape[0], -1)
    vector2_no_nan = vector2[nan_idx2].reshape(vector2.shape[0], -1)
    if not vector1_no_nan.shape[1] == vector2_no_nan.shape[1]:
        raise ValueError('rdm1 and rdm2 have different nan positions')
"""),
 'M2':('util/rdm_utils.py',"""    if not (np.all(not_nan_mask == not_nan_mask[0])
            and np.all(not_nan_mask2 == not_nan_mask[0])):
        raise ValueError('rdm1 and rdm2 have different nan positions')
    vector1_no_nan = vector1[not_nan_mask].reshape(vector1.shape[0], -1)
    vector2_no_nan = vector2[not_nan_mask2].reshape(vector2.shape[0], -1)
""","""    vector1_no_nan = vector1[not_nan_mask].reshape(vector1.shape[0], -1)
    vector2_no_nan = vector2[not_nan_mask2].reshape(vector2.shape[0], -1)
    if not vector1_no_nan.shape[1] == vector2_no_nan.shape[1]:
        raise ValueError('rdm1 and rdm2 have different nan positions')
"""),
 'M3':('rdm/combine.py',"""    weights[np.isnan(vectors)] = np.nan
    weighted_sum""","""    weighted_sum"""),
 'M4':('rdm/compare.py',"""        sumI[n_dist:, :] /= 2
""",""""""),
 'M5':('util/inference_util.py',"""    ranks_no_nan = rankdata(rdm_vector[~np.isnan(rdm_vector)])""","""    ranks_no_nan = rankdata(np.nan_to_num(rdm_vector))[~np.isnan(rdm_vector)]"""),
 'M6':('rdm/combine.py',"""        tiled_estimate[np.isnan(dissim)] = nan
""",""""""),
 'M7':('model/fitter.py',"""    vectors, y, non_nan_mask = _parse_nan_vectors(vectors, y)""","""    non_nan_mask = ~np.isnan(vectors) & ~np.isnan(y)
    vectors, y = vectors[:, non_nan_mask[0]], y[:, non_nan_mask[0]]"""),
 'M8':('rdm/rdms.py',"""        for i_rdm in range(self.n_rdm):
            np.fill_diagonal(dissimilarities[i_rdm], np.nan)
        selection = np.sort(selection)""","""        selection = np.sort(selection)"""),
 'M9':('rdm/combine.py',"""        pidx = [all_patterns.index(i) for i in pdescs(rdms, descriptor)]""","""        pidx = sorted(all_patterns.index(i) for i in pdescs(rdms, descriptor))"""),
 'M10':('rdm/compare.py',"""        v = v[nan_idx][:, nan_idx]
    else:""","""        v = v[:vector1.shape[1]][:, :vector1.shape[1]]
    else:"""),
 'M11':('rdm/combine.py',"""        setsize = np.isfinite(dissim).sum(axis=1)""","""        setsize = np.full(n_rdms, n_conds)"""),
 'M12':('util/pooling.py',"""        ok_idx = np.all(np.isfinite(rdm_vec), axis=0)
        v = v[ok_idx][:, ok_idx]
        rdm_vec_nonan = rdm_vec[:, ok_idx]
        v_inv_x = np.array([scipy.sparse.linalg.cg(v, rdm_vec_nonan[i],
                                                   atol=10 ** -9)[0]
                            for i in range(rdms.n_rdm)])
        rdm_norms = np.einsum('ij, ij->i', rdm_vec_nonan, v_inv_x).reshape(
            [rdms.n_rdm, 1])
        rdm_vec = rdm_vec / _nonzero(np.sqrt(rdm_norms))
        rdm_vec = _nan_mean(rdm_vec)
    elif method == 'corr_cov':""","""        ok_idx = np.all(np.isfinite(rdm_vec), axis=0)
        v = v[:ok_idx.sum()][:, :ok_idx.sum()]
        rdm_vec_nonan = rdm_vec[:, ok_idx]
        v_inv_x = np.array([scipy.sparse.linalg.cg(v, rdm_vec_nonan[i],
                                                   atol=10 ** -9)[0]
                            for i in range(rdms.n_rdm)])
        rdm_norms = np.einsum('ij, ij->i', rdm_vec_nonan, v_inv_x).reshape(
            [rdms.n_rdm, 1])
        rdm_vec = rdm_vec / _nonzero(np.sqrt(rdm_norms))
        rdm_vec = _nan_mean(rdm_vec)
    elif method == 'corr_cov':"""),
}

MUT.update({
 'N1':('util/pooling.py',"rdm_vec = rdm_vec - np.nanmin(rdm_vec) + 0.01\n    elif method == 'cosine_cov':","rdm_vec = rdm_vec - np.nanmin(rdm_vec) + 0.02\n    elif method == 'cosine_cov':"),
 'N2':('util/inference_util.py',"        rdm_vec = rdm_vec / _nonzero(np.nanstd(rdm_vec, axis=1, keepdims=True))","        rdm_vec = rdm_vec / np.nanstd(rdm_vec, axis=1, keepdims=True)"),
 'N3':('rdm/compare.py',"            vector2 = rdm2.reshape(1, -1)","            vector2 = np.nan_to_num(rdm2).reshape(1, -1)"),
 'N4':('rdm/combine.py',"        all_patterns = list(dict.fromkeys(all_patterns).keys())","        all_patterns = sorted(dict.fromkeys(all_patterns).keys(), reverse=True)"),
 'N5':('rdm/rdms.py',"            selection = np.where(desc == value)[0]\n        selection = np.sort(selection)\n        dissimilarities = self.get_matrices()","            selection = np.where(desc != value)[0]\n        selection = np.sort(selection)\n        dissimilarities = self.get_matrices()"),
 'N6':('rdm/compare.py',"        v = v[nan_idx][:, nan_idx]\n    else:","        v = v[nan_idx][:, nan_idx] if sigma_k is not None else v[:nan_idx.sum()][:, :nan_idx.sum()]\n    else:"),
 'N7':('util/rdm_utils.py',"    vector1 = rdm1.get_vectors()\n    vector2 = rdm2.get_vectors()\n    return _parse_nan_vectors(vector1, vector2)","    vector1 = np.nan_to_num(rdm1.get_vectors())\n    vector2 = rdm2.get_vectors()\n    return _parse_nan_vectors(vector1, vector2)"),
})

for k in sys.argv[1:]:
    run(k,*MUT[k])
